(** * C11 - forms with different compiled meaning never share a signature

    Model of ufl/algorithms/signature.py (compute_terminal_hashdata / compute_multiindex_hashdata /
    compute_expression_hashdata / compute_form_signature) and ufl/utils/sorting.py:canonicalize_metadata
    as functions into a datatype of rendered tokens.  [H] stands for "str(data).encode() |> sha512": it is
    a Section variable; soundness is proved from the HYPOTHESIS that it is injective on tokens (a SHA-512
    collision or an ambiguity of Python's str() of nested tuples/lists is outside the proof), completeness
    needs nothing.  Expression trees are those of C29_model.v (after the canonical renumbering of
    C12_model.v: counts in the trees are the renumbered ones).

    - [C11_complete]: trees equal up to what the hash data ignores have equal hashes; equal forms, equal sig;
    - [C11_ehash_inj], [C11_thd_inj], [C11_sound]: equal signature => integrand (stripped tree), domain
      data, integral type, subdomain id and CANONICALISED metadata agree, integral by integral;
    - [C11_canon_md_inj_typed]: canonicalize_metadata is injective on metadata of equal type skeleton
      (given injective str() of ints and of arrays);
    - refuted without the type skeleton ([C11_metadata_untyped_refuted]: 3 vs "3", None vs "None",
      list vs tuple) and for arrays whenever str(ndarray) is not injective
      ([C11_signature_collision_from_array_str]: two forms with different metadata, equal signature). *)

From Coq Require Import String Ascii ZArith NArith Bool Lia PeanoNat List.
From UFLV Require Import Props.C29_model.
Import ListNotations.
Open Scope N_scope.

Section Sig.
  Variable D : Type.                                  (* digests *)

  Inductive tok :=
  | KStr (s : string) | KInt (z : Z) | KNat (n : N) | KDig (d : D) | KTup (l : list tok).

  Variable H : tok -> D.                               (* sha512 (str data) *)

  (** ** terminal hash data (_ufl_signature_data_ / compute_multiindex_hashdata) *)
  Definition idx_tok (i : idx) : tok :=
    match i with
    | Fixed v => KInt (Z.of_N v)                       (* nonnegative ints for FixedIndex *)
    | Free c => KInt (- Z.of_N c - 1)                  (* -(number+1) for the renumbered Index *)
    end.

  Definition part_tok (p : option N) : tok := match p with None => KStr "None" | Some n => KNat n end.

  Definition thd (d : tdata) : tok :=
    match d with
    | TMulti l => KTup (map idx_tok l)
    | TArg n p fs => KTup [KStr "Argument"; KNat n; part_tok p; KNat fs]
    | TCoef c fs => KTup [KStr "Coefficient"; KNat c; KNat fs]
    | TLabel c => KTup [KStr "Label"; KNat c]
    | TRepr ps => KStr (render ps)                     (* repr / f-string signature data *)
    | TGeo k m => KTup [KStr "Geo"; KStr k; KNat m]    (* (class name,) + domain signature data *)
    end.

  Definition norm_tdata (d : tdata) : tdata :=
    match d with TRepr ps => TRepr [PLit (render ps)] | _ => d end.

  Lemma idx_tok_inj i j : idx_tok i = idx_tok j -> i = j.
  Proof. destruct i, j; simpl; intro E; injection E as E; f_equal; lia. Qed.

  Lemma map_inj {A B} (f : A -> B) : (forall x y, f x = f y -> x = y) ->
    forall l1 l2, map f l1 = map f l2 -> l1 = l2.
  Proof.
    intros Hf. induction l1 as [|x l1 IH]; destruct l2 as [|y l2]; simpl; intro E; try reflexivity; try discriminate.
    injection E as E1 E2. f_equal; [apply Hf, E1 | apply IH, E2].
  Qed.

  Lemma part_tok_inj p q : part_tok p = part_tok q -> p = q.
  Proof. destruct p, q; simpl; intro E; try reflexivity; try discriminate. injection E as E. congruence. Qed.

  Theorem C11_thd_inj : forall d e, thd d = thd e -> norm_tdata d = norm_tdata e.
  Proof.
    intros d e E.
    destruct d as [l | n p fs | c fs | c | ps | k m], e as [l' | n' p' fs' | c' fs' | c' | ps' | k' m'];
      simpl in *; try discriminate;
      (* a multi-index against a tagged tuple: the first element is an int, not a string *)
      try (destruct l as [|i l]; simpl in E; try discriminate; destruct i; discriminate);
      try (destruct l' as [|i l']; simpl in E; try discriminate; destruct i; discriminate).
    - injection E as E. f_equal. apply (map_inj idx_tok idx_tok_inj), E.
    - injection E as E1 E2 E3. apply part_tok_inj in E2. congruence.
    - injection E as E1 E2. congruence.
    - injection E as E1. congruence.
    - injection E as E1. rewrite E1. reflexivity.
    - injection E as E1 E2. congruence.
  Qed.

  Lemma thd_norm d : thd (norm_tdata d) = thd d.
  Proof. destruct d; reflexivity. Qed.

  (** ** expression hash data: post-order, a terminal hashes [data], an operator [typecode, hashes...] *)
  Fixpoint ehash (t : tree) : D :=
    match t with
    | Leaf _ d => H (KTup [thd d])
    | Node tc ops => H (KTup (KNat tc :: map (fun o => KDig (ehash o)) ops))
    end.

  (** what the hash data can see of a tree: terminals lose their type code (it is not hashed) and keep
      their signature data *)
  Fixpoint strip (t : tree) : tree :=
    match t with
    | Leaf _ d => Leaf 0 (norm_tdata d)
    | Node tc ops => Node tc (map strip ops)
    end.

  Theorem C11_complete_expr : forall a b, strip a = strip b -> ehash a = ehash b.
  Proof.
    induction a as [ta da | ta oa IH] using tree_ind'; intros [tb db | tb ob] E; simpl in *; try discriminate.
    - injection E as E. rewrite <- (thd_norm da), E, thd_norm. reflexivity.
    - injection E as E1 E2. subst. f_equal. f_equal. f_equal.
      revert ob E2. induction IH as [|x l Hx _ IHl]; destruct ob as [|y l2]; simpl; intro E; try reflexivity; try discriminate.
      injection E as Ea Eb. rewrite (Hx y Ea), (IHl l2 Eb). reflexivity.
  Qed.

  Hypothesis H_inj : forall x y, H x = H y -> x = y.

  Theorem C11_ehash_inj : forall a b, ehash a = ehash b -> strip a = strip b.
  Proof.
    induction a as [ta da | ta oa IH] using tree_ind'; intros [tb db | tb ob] E; simpl in *;
      apply H_inj in E.
    - injection E as E. rewrite (C11_thd_inj _ _ E). reflexivity.
    - injection E as E1 E2. destruct da; discriminate.
    - injection E as E1 E2. destruct db; discriminate.
    - injection E as E1 E2. subst. f_equal.
      revert ob E2. induction IH as [|x l Hx _ IHl]; destruct ob as [|y l2]; simpl; intro E; try reflexivity; try discriminate.
      injection E as Ea Eb. rewrite (Hx y Ea), (IHl l2 Eb). reflexivity.
  Qed.

  (** ** metadata: canonicalize_metadata *)
  Variable Arr : Type.                                 (* numpy arrays *)
  Variable str_arr : Arr -> string.                    (* str(ndarray) *)
  Variable str_int : Z -> string.                      (* str(int) *)
  Variable str_float : string -> string.               (* floats are given by their repr; str = repr *)

  Inductive mval :=
  | MInt (z : Z) | MFloat (r : string) | MStr (s : string) | MNone | MBool (b : bool)
  | MArr (a : Arr)
  | MSeq (is_list : bool) (l : list mval)             (* list or tuple *)
  | MDict (l : list (string * mval)).                 (* keys already sorted *)

  Fixpoint canon_md (m : mval) : tok :=
    match m with
    | MInt z => KStr (str_int z)
    | MFloat r => KStr (str_float r)
    | MStr s => KStr s
    | MNone => KStr "None"
    | MBool b => KStr (if b then "True" else "False")
    | MArr a => KStr (str_arr a)
    | MSeq _ l => KTup (map canon_md l)
    | MDict l => KTup (map (fun kv => KTup [KStr (fst kv); canon_md (snd kv)]) l)
    end.

  (** same type skeleton (the information canonicalize_metadata drops) *)
  Fixpoint same_type (a b : mval) : bool :=
    match a, b with
    | MInt _, MInt _ | MFloat _, MFloat _ | MStr _, MStr _ | MNone, MNone | MBool _, MBool _
    | MArr _, MArr _ => true
    | MSeq f1 l1, MSeq f2 l2 =>
        Bool.eqb f1 f2 &&
        (fix go (l1 l2 : list mval) : bool :=
           match l1, l2 with
           | [], [] => true
           | x :: l1', y :: l2' => same_type x y && go l1' l2'
           | _, _ => false
           end) l1 l2
    | MDict l1, MDict l2 =>
        (fix go (l1 l2 : list (string * mval)) : bool :=
           match l1, l2 with
           | [], [] => true
           | (_, x) :: l1', (_, y) :: l2' => same_type x y && go l1' l2'
           | _, _ => false
           end) l1 l2
    | _, _ => false
    end.

  Lemma mval_ind' (P : mval -> Prop) :
    (forall z, P (MInt z)) -> (forall r, P (MFloat r)) -> (forall s, P (MStr s)) -> P MNone ->
    (forall b, P (MBool b)) -> (forall a, P (MArr a)) ->
    (forall f l, Forall P l -> P (MSeq f l)) ->
    (forall l, Forall (fun kv => P (snd kv)) l -> P (MDict l)) ->
    forall m, P m.
  Proof.
    intros H1 H2 H3 H4 H5 H6 H7 H8. fix IH 1. intros [z | r | s | | b | a | f l | l].
    - apply H1. - apply H2. - apply H3. - apply H4. - apply H5. - apply H6.
    - apply H7. induction l as [|x l IHl]; constructor; [apply IH | exact IHl].
    - apply H8. induction l as [|[k x] l IHl]; constructor; [apply IH | exact IHl].
  Qed.

  Hypothesis str_int_inj : forall x y, str_int x = str_int y -> x = y.
  Hypothesis str_float_inj : forall x y, str_float x = str_float y -> x = y.

  Section TypedInjectivity.
    Hypothesis str_arr_inj : forall x y, str_arr x = str_arr y -> x = y.

    Theorem C11_canon_md_inj_typed : forall a b,
      same_type a b = true -> canon_md a = canon_md b -> a = b.
    Proof.
      induction a as [z | r | s | | b0 | a0 | f l IH | l IH] using mval_ind';
        intros [z' | r' | s' | | b' | a' | f' l' | l'] Ht E; simpl in Ht; try discriminate; simpl in E.
      - injection E as E. f_equal. apply str_int_inj, E.
      - injection E as E. f_equal. apply str_float_inj, E.
      - injection E as E. congruence.
      - reflexivity.
      - destruct b0, b'; try reflexivity; discriminate.
      - injection E as E. f_equal. apply str_arr_inj, E.
      - apply andb_true_iff in Ht. destruct Ht as [Hf Hl]. apply Bool.eqb_prop in Hf. subst. f_equal.
        injection E as E. revert l' Hl E.
        induction IH as [|x l Hx _ IHl]; destruct l' as [|y l']; simpl; intros Hl E; try reflexivity; try discriminate.
        apply andb_true_iff in Hl. destruct Hl as [Hl1 Hl2]. injection E as E1 E2.
        f_equal; [apply Hx; assumption | apply IHl; assumption].
      - f_equal. injection E as E. revert l' Ht E.
        induction IH as [|[k x] l Hx _ IHl]; destruct l' as [|[k' y] l']; simpl; intros Hl E; try reflexivity; try discriminate.
        apply andb_true_iff in Hl. destruct Hl as [Hl1 Hl2]. injection E as E0 E1 E2.
        f_equal; [f_equal; [exact E0 | apply Hx; assumption] | apply IHl; assumption].
    Qed.
  End TypedInjectivity.

  (** without the type skeleton canonicalize_metadata is not injective, whatever str() is *)
  Theorem C11_metadata_untyped_refuted :
    (MInt 3 <> MStr (str_int 3) /\ canon_md (MInt 3) = canon_md (MStr (str_int 3))) /\
    (MNone <> MStr "None" /\ canon_md MNone = canon_md (MStr "None")) /\
    (MBool true <> MStr "True" /\ canon_md (MBool true) = canon_md (MStr "True")) /\
    (MSeq true [MInt 1] <> MSeq false [MInt 1] /\ canon_md (MSeq true [MInt 1]) = canon_md (MSeq false [MInt 1])).
  Proof. repeat split; try discriminate; reflexivity. Qed.

  (** ** the repaired canonicalisation (fixes/C15-canonicalize-metadata.diff): scalar leaves are rendered
      with repr(), arrays with tolist()/dtype/shape; [tag = true] additionally models the extension
      fixes/C11-sequence-type-tag.diff (a list/tuple is prefixed with its type name) *)
  Inductive leaf := LInt (z : Z) | LFloat (r : string) | LStr (s : string) | LNone | LBool (b : bool) | LArr (a : Arr).
  Variable rleaf : leaf -> string.                      (* repr of a leaf / the ndarray rendering *)

  Fixpoint canon_md2 (tag : bool) (m : mval) : tok :=
    match m with
    | MInt z => KStr (rleaf (LInt z))
    | MFloat r => KStr (rleaf (LFloat r))
    | MStr s => KStr (rleaf (LStr s))
    | MNone => KStr (rleaf LNone)
    | MBool b => KStr (rleaf (LBool b))
    | MArr a => KStr (rleaf (LArr a))
    | MSeq f l => KTup ((if tag then [KStr (if f then "list" else "tuple")] else []) ++ map (canon_md2 tag) l)
    | MDict l => KTup (map (fun kv => KTup [KStr (fst kv); canon_md2 tag (snd kv)]) l)
    end.

  (** same CONTAINER skeleton (list vs tuple vs dict); scalar leaves and arrays are unconstrained *)
  Fixpoint container_eq (a b : mval) : bool :=
    match a, b with
    | MSeq f1 l1, MSeq f2 l2 =>
        Bool.eqb f1 f2 &&
        (fix go (l1 l2 : list mval) : bool :=
           match l1, l2 with
           | [], [] => true
           | x :: l1', y :: l2' => container_eq x y && go l1' l2'
           | _, _ => false
           end) l1 l2
    | MDict l1, MDict l2 =>
        (fix go (l1 l2 : list (string * mval)) : bool :=
           match l1, l2 with
           | [], [] => true
           | (_, x) :: l1', (_, y) :: l2' => container_eq x y && go l1' l2'
           | _, _ => false
           end) l1 l2
    | MSeq _ _, _ | MDict _, _ | _, MSeq _ _ | _, MDict _ => false
    | _, _ => true
    end.

  Section RepairedInjectivity.
    (** one injective renderer for all leaves: repr of ints, floats, strs, None, bools and the ndarray
        rendering are injective and have pairwise disjoint images *)
    Hypothesis rleaf_inj : forall x y, rleaf x = rleaf y -> x = y.

    Theorem C11_canon_md2_inj : forall tag a b,
      (tag = true \/ container_eq a b = true) -> canon_md2 tag a = canon_md2 tag b -> a = b.
    Proof.
      intros tag.
      induction a as [z | r | s | | b0 | a0 | f l IH | l IH] using mval_ind';
        intros [z' | r' | s' | | b' | a' | f' l' | l'] Hc E; simpl in E; try reflexivity;
        try (injection E as E; apply rleaf_inj in E; first [discriminate E | injection E as E; congruence | reflexivity]);
        try discriminate E;
        try (destruct tag; simpl in E; discriminate E).
      - (* seq / seq *)
        assert (Hf : f = f' /\ map (canon_md2 tag) l = map (canon_md2 tag) l' /\
                     (tag = true \/ (fix go (l1 l2 : list mval) : bool :=
                        match l1, l2 with [], [] => true | x :: l1', y :: l2' => container_eq x y && go l1' l2'
                                     | _, _ => false end) l l' = true)).
        { destruct tag; simpl in E.
          - injection E as E1 E2. split; [destruct f, f'; try reflexivity; discriminate | split; [exact E2 | left; reflexivity]].
          - injection E as E. destruct Hc as [Hc | Hc]; [discriminate|]. simpl in Hc.
            apply andb_true_iff in Hc. destruct Hc as [H1 H2]. apply Bool.eqb_prop in H1.
            split; [exact H1 | split; [exact E | right; exact H2]]. }
        destruct Hf as [Hf [Hm Hg]]. subst f'. f_equal. clear E Hc. revert l' Hm Hg.
        induction IH as [|x l Hx _ IHl]; destruct l' as [|y l']; simpl; intros Hm Hg; try reflexivity; try discriminate.
        injection Hm as E1 E2. f_equal.
        + apply Hx; [| exact E1]. destruct Hg as [Hg | Hg]; [left; exact Hg | right].
          apply andb_true_iff in Hg. apply Hg.
        + apply IHl; [exact E2|]. destruct Hg as [Hg | Hg]; [left; exact Hg | right].
          apply andb_true_iff in Hg. apply Hg.
      - (* seq / dict *)
        destruct tag; simpl in E.
        + destruct l' as [|[k v] l']; simpl in E; discriminate E.
        + destruct Hc as [Hc | Hc]; discriminate Hc.
      - (* dict / seq *)
        destruct tag; simpl in E.
        + destruct l as [|[k v] l]; simpl in E; discriminate E.
        + destruct Hc as [Hc | Hc]; discriminate Hc.
      - (* dict / dict *)
        f_equal. injection E as E. simpl in Hc. revert l' Hc E.
        induction IH as [|[k x] l Hx _ IHl]; destruct l' as [|[k' y] l']; simpl; intros Hc E; try reflexivity; try discriminate.
        injection E as E0 E1 E2. f_equal.
        + f_equal; [exact E0|]. apply Hx; [| exact E1]. destruct Hc as [Hc | Hc]; [left; exact Hc | right].
          apply andb_true_iff in Hc. apply Hc.
        + apply IHl; [| exact E2]. destruct Hc as [Hc | Hc]; [left; exact Hc | right].
          apply andb_true_iff in Hc. apply Hc.
    Qed.

    (** with the repaired rendering the TYPE of a scalar leaf can no longer be confused ... *)
    Corollary C11_repaired_leaves_distinct :
      canon_md2 false (MInt 3) <> canon_md2 false (MStr (str_int 3)) /\
      canon_md2 false MNone <> canon_md2 false (MStr "None") /\
      canon_md2 false (MBool true) <> canon_md2 false (MStr "True").
    Proof.
      repeat split; intro E; apply (C11_canon_md2_inj false) in E; try discriminate E; right; reflexivity.
    Qed.

    (** ... and with the type tag canonicalisation is injective outright *)
    Corollary C11_canon_md2_inj_tagged : forall a b, canon_md2 true a = canon_md2 true b -> a = b.
    Proof. intros a b. apply C11_canon_md2_inj. left; reflexivity. Qed.
  End RepairedInjectivity.

  (** what the repaired rendering (without the tag) still identifies: list vs tuple, and a dict whose key is
      the repr of a string vs a sequence of (key, value) pairs *)
  Theorem C11_repaired_sequence_type_refuted :
    (MSeq true [MInt 1] <> MSeq false [MInt 1] /\ canon_md2 false (MSeq true [MInt 1]) = canon_md2 false (MSeq false [MInt 1])) /\
    (forall k v, MDict [(rleaf (LStr k), v)] <> MSeq true [MSeq false [MStr k; v]] /\
                 canon_md2 false (MDict [(rleaf (LStr k), v)]) = canon_md2 false (MSeq true [MSeq false [MStr k; v]])).
  Proof. split; [split; [discriminate | reflexivity] | intros k v; split; [discriminate | reflexivity]]. Qed.

  (** ** integrals and forms *)
  Inductive sdid := SInt (z : Z) | SStr (s : string) | STup (l : list Z).   (* subdomain id *)
  Definition sdid_tok (s : sdid) : tok :=
    match s with SInt z => KInt z | SStr s => KStr s | STup l => KTup (map KInt l) end.

  (** [xdoms]: the extra_domain_integral_type_map of a multi-mesh integral (Measure(..., intersect_measures=...)):
      the other meshes the integral intersects, each with the integral type used on it, in the order of
      the domain sort (the order the Integral constructor stores them in) *)
  Record integral := { integrand : tree; dom : N; itype : string; xdoms : list (N * string); sid : sdid; md : mval }.

  Definition xdom_tok (p : N * string) : tok := KTup [KNat (fst p); KStr (snd p)].

  Definition integral_tok (i : integral) : tok :=
    KTup [KDig (ehash (integrand i)); KNat (dom i); KStr (itype i); KTup (map xdom_tok (xdoms i));
          sdid_tok (sid i); canon_md (md i)].
  Definition signature (F : list integral) : D := H (KTup (map integral_tok F)).

  (** the compiled meaning of an integral, as far as the signature can and must see it *)
  Definition meaning (i : integral) : tree * N * string * list (N * string) * sdid * tok :=
    (strip (integrand i), dom i, itype i, xdoms i, sid i, canon_md (md i)).

  Lemma xdom_tok_inj p q : xdom_tok p = xdom_tok q -> p = q.
  Proof. destruct p, q; unfold xdom_tok; simpl; intro E; injection E as E1 E2; congruence. Qed.

  Lemma sdid_tok_inj a b : sdid_tok a = sdid_tok b -> a = b.
  Proof.
    destruct a, b; simpl; intro E; try discriminate; try (injection E as E; congruence).
    injection E as E. f_equal. apply (map_inj KInt); [intros x y Q; injection Q; auto | exact E].
  Qed.

  Theorem C11_complete : forall F G, map meaning F = map meaning G -> signature F = signature G.
  Proof.
    intros F G E. unfold signature. f_equal. f_equal. revert G E.
    induction F as [|i F IH]; destruct G as [|j G]; cbn [map]; intro E; try reflexivity; try discriminate.
    injection E as Ea Eb Ec Ex Ed Ee E2. rewrite (IH G E2). f_equal. unfold integral_tok.
    rewrite (C11_complete_expr _ _ Ea), Eb, Ec, Ex, Ed, Ee. reflexivity.
  Qed.

  Theorem C11_sound : forall F G, signature F = signature G -> map meaning F = map meaning G.
  Proof.
    intros F G E. unfold signature in E. apply H_inj in E. injection E as E. revert G E.
    induction F as [|i F IH]; destruct G as [|j G]; cbn [map]; intro E; try reflexivity; try discriminate.
    injection E as Ea Eb Ec Ex Ed Ee E2. rewrite (IH G E2). f_equal. unfold meaning.
    apply C11_ehash_inj in Ea. apply sdid_tok_inj in Ed. apply (map_inj xdom_tok xdom_tok_inj) in Ex.
    rewrite Ea, Eb, Ec, Ex, Ed, Ee. reflexivity.
  Qed.

  (** in particular: two integrals that differ only in the integral type used on an intersected mesh
      (ds vs dS on the extra domain) have different signatures *)
  Corollary C11_sound_extra_domain_type : forall e dm it sd m d t t' pre post,
    t <> t' ->
    signature [{| integrand := e; dom := dm; itype := it; xdoms := pre ++ (d, t) :: post; sid := sd; md := m |}] <>
    signature [{| integrand := e; dom := dm; itype := it; xdoms := pre ++ (d, t') :: post; sid := sd; md := m |}].
  Proof.
    intros e dm it sd m d t t' pre post Hne E. apply C11_sound in E. cbn [map meaning xdoms] in E.
    injection E as E. apply app_inv_head in E. injection E as E. exact (Hne E).
  Qed.

  (** metadata VALUES are determined only for equal type skeletons ... *)
  Corollary C11_sound_metadata_typed : (forall x y, str_arr x = str_arr y -> x = y) ->
    forall i j, signature [i] = signature [j] -> same_type (md i) (md j) = true -> md i = md j.
  Proof.
    intros Ha i j E Ht. apply C11_sound in E. cbn [map] in E.
    injection E as _ _ _ _ _ E. apply (C11_canon_md_inj_typed Ha); assumption.
  Qed.

  (** ... and every collision of str(ndarray) is a collision of signatures of forms whose metadata differ
      (the harness exhibits x <> y with str_arr x = str_arr y on the real numpy) *)
  Theorem C11_signature_collision_from_array_str : forall x y e dm it sd,
    x <> y -> str_arr x = str_arr y ->
    let F := [{| integrand := e; dom := dm; itype := it; xdoms := []; sid := sd; md := MDict [("weights"%string, MArr x)] |}] in
    let G := [{| integrand := e; dom := dm; itype := it; xdoms := []; sid := sd; md := MDict [("weights"%string, MArr y)] |}] in
    F <> G /\ signature F = signature G.
  Proof.
    intros x y e dm it sd Hne Hs F G. split.
    - unfold F, G. intro E. injection E as E. apply Hne. exact E.
    - unfold signature, F, G. simpl. unfold integral_tok. simpl. rewrite Hs. reflexivity.
  Qed.

  Theorem C11_signature_collision_untyped : forall e dm it sd,
    let F := [{| integrand := e; dom := dm; itype := it; xdoms := []; sid := sd; md := MDict [("degree"%string, MInt 3)] |}] in
    let G := [{| integrand := e; dom := dm; itype := it; xdoms := []; sid := sd; md := MDict [("degree"%string, MStr (str_int 3))] |}] in
    F <> G /\ signature F = signature G.
  Proof.
    intros e dm it sd F G. split.
    - unfold F, G. intro E. discriminate E.
    - reflexivity.
  Qed.
End Sig.

Print Assumptions C11_thd_inj.
Print Assumptions C11_complete_expr.
Print Assumptions C11_ehash_inj.
Print Assumptions C11_canon_md_inj_typed.
Print Assumptions C11_metadata_untyped_refuted.
Print Assumptions C11_complete.
Print Assumptions C11_sound.
Print Assumptions C11_sound_extra_domain_type.
Print Assumptions C11_sound_metadata_typed.
Print Assumptions C11_signature_collision_from_array_str.
Print Assumptions C11_signature_collision_untyped.
Print Assumptions C11_canon_md2_inj.
Print Assumptions C11_canon_md2_inj_tagged.
Print Assumptions C11_repaired_leaves_distinct.
Print Assumptions C11_repaired_sequence_type_refuted.

(** executable instances for the generated correspondence (coq/Gen/C11_*.v): arrays are represented by
    their real str() (the oracle), ints are printed by a Gallina decimal printer *)
Definition z_str (z : Z) : string :=
  match z with Z0 => "0" | Zpos p => dec (Npos p) | Zneg p => String "-" (dec (Npos p)) end.
Definition md_tok (m : mval string) : tok unit :=
  canon_md unit string (fun s => s) z_str (fun s => s) m.
(** repaired rendering: strings are quoted, floats/arrays are given by their real rendering *)
Definition rleaf_exec (l : leaf string) : string :=
  match l with
  | LInt _ z => z_str z
  | LFloat _ r => r
  | LStr _ s => String "'" (s ++ "'")
  | LNone _ => "None"
  | LBool _ b => if b then "True" else "False"
  | LArr _ a => a
  end.
Definition md_tok2 (tag : bool) (m : mval string) : tok unit :=
  canon_md2 unit string rleaf_exec tag m.
Check md_tok2.
