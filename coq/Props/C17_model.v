(* C17 - Restriction propagation preserves two-sided integrands.  Hand-written part.

   MODEL (of ufl/algorithms/apply_restrictions.py, RestrictionPropagator):
     [apply_rule]   the four reusable rules _ignore_restriction / _require_restriction /
                    _default_restricted / _opposite as functions of (default restriction of the
                    domain [dr], current restriction [cur]); [dr = None] is
                    default_restrictions=None ("just propagate"), [dr = Some r] is
                    default_restrictions[domain] = r;
     [resolve]      the rule of a terminal: the table kind -> handler is a PARAMETER (it is
                    extracted from the source into coq/Gen/C17_table.v on every run), the
                    coefficient rule asks [cont id] (element in H1), the facet_normal rule asks
                    [affine_nm] (degree <= 1, H1, gdim = tdim);
     [propagate]    the two-level traversal: operators rebuild from propagated operands
                    (reuse_if_untouched), Variable is stripped, Grad is given the
                    _require_restriction rule as a whole, ReferenceValue follows its terminal, a
                    Restricted node inside a restriction is an error, otherwise it switches to
                    the propagator of its side.  Compound tensor algebra and div/curl/nabla_grad
                    (removed by apply_algebra_lowering before this pass) are Error EUnsupported.
   THEOREMS (all expressions, all environments, every UFL algebra, any table with the stated
   properties):
     [C17_value]    propagate cur e = OK e' -> den e' = den e (two-sided), under the continuity
                    laws: terminals the table ignores / default-restricts are side independent,
                    terminals it flips satisfy  value(-) = - value(+)
     [C17_once]     with a default restriction: in e' every terminal of an ignored class is under
                    no restriction, every other terminal (and every Grad) under exactly one,
                    placed directly on it
     [C17_rejects]  a restriction inside a restriction, and (with a default restriction) an
                    unrestricted terminal of a class that must be restricted, give Error
     [C17_defaults_off_accepts_missing]  (refuted half) with default_restrictions=None a missing
                    restriction is NOT rejected: propagate returns the integrand unchanged. *)
Require Import UFLV.Core.Den.
Require Import Lia.

Inductive handler := HIgnore | HRequire | HDefault | HOpposite | HCoefficient | HFacetNormal | HMissing.
Inductive err := EDouble | EMissing | EInconsistent | ENoRule | EUnsupported | EIllFormed.
Inductive result (X : Type) := OK (x : X) | Error (e : err).
Arguments OK {X}. Arguments Error {X}.

Definition rmap1 {X Y} (f : X -> Y) (r : result X) : result Y :=
  match r with OK x => OK (f x) | Error e => Error e end.
Definition rmap2 {X Y Z} (f : X -> Y -> Z) (r1 : result X) (r2 : result Y) : result Z :=
  match r1, r2 with
  | OK x, OK y => OK (f x y)
  | Error e, _ => Error e
  | _, Error e => Error e
  end.
Definition rmap3 {X Y Z W} (f : X -> Y -> Z -> W) (r1 : result X) (r2 : result Y) (r3 : result Z) : result W :=
  match r1, r2, r3 with
  | OK x, OK y, OK z => OK (f x y z)
  | Error e, _, _ => Error e
  | _, Error e, _ => Error e
  | _, _, Error e => Error e
  end.

Definition is_err {X} (r : result X) : Prop := exists e, r = Error e.

Lemma rmap1_err {X Y} (f : X -> Y) r : is_err r -> is_err (rmap1 f r).
Proof. intros [e ->]. exists e. reflexivity. Qed.
Lemma rmap2_err_l {X Y Z} (f : X -> Y -> Z) r1 r2 : is_err r1 -> is_err (rmap2 f r1 r2).
Proof. intros [e ->]. exists e. reflexivity. Qed.
Lemma rmap2_err_r {X Y Z} (f : X -> Y -> Z) r1 r2 : is_err r2 -> is_err (rmap2 f r1 r2).
Proof. intros [e ->]. destruct r1; eexists; reflexivity. Qed.
Lemma rmap3_err_1 {X Y Z W} (f : X -> Y -> Z -> W) r1 r2 r3 : is_err r1 -> is_err (rmap3 f r1 r2 r3).
Proof. intros [e ->]. exists e. reflexivity. Qed.
Lemma rmap3_err_2 {X Y Z W} (f : X -> Y -> Z -> W) r1 r2 r3 : is_err r2 -> is_err (rmap3 f r1 r2 r3).
Proof. intros [e ->]. destruct r1; eexists; reflexivity. Qed.
Lemma rmap3_err_3 {X Y Z W} (f : X -> Y -> Z -> W) r1 r2 r3 : is_err r3 -> is_err (rmap3 f r1 r2 r3).
Proof. intros [e ->]. destruct r1; [destruct r2|]; eexists; reflexivity. Qed.

Definition is_ign (h : handler) : bool := match h with HIgnore => true | _ => false end.
Definition is_opp (h : handler) : bool := match h with HOpposite => true | _ => false end.
Definition is_some {X} (o : option X) : bool := match o with Some _ => true | None => false end.

(* exponent of a Power that [den] reads syntactically *)
Definition pow_ok (b : expr) : bool :=
  match b with Vari _ _ | Restricted _ _ => false | _ => true end.

(* operands of Grad after apply_derivatives: (gradients of) terminals *)
Fixpoint gtarget (e : expr) : bool :=
  match e with
  | Term _ _ _ => true
  | Grad a _ => gtarget a
  | RefValue (Term _ _ _) _ => true
  | _ => false
  end.

(* CLASSIFICATION of the statement: terminal kinds (numbering of py/ufl2coq.py) whose value is the
   same on both sides of a facet: Constant 2, SpatialCoordinate 10, FacetCoordinate 12,
   FacetOrigin 15, FacetJacobian 20, FacetJacobianDeterminant 31, FacetJacobianInverse 36,
   ReferenceCellVolume 43, ReferenceFacetVolume 44, FacetArea 49, MinFacetEdgeLength 52,
   MaxFacetEdgeLength 53, QuadratureWeight 56.  (H1 coefficients are classified per coefficient by
   [cont]; everything else - arguments, cell geometry, facet normal, ... - is side dependent.) *)
Definition sindep_list : list nat := [2; 12; 56; 43; 44; 10; 20; 31; 36; 49; 52; 53; 15].
Definition sindep_kind (k : nat) : bool := existsb (Nat.eqb k) sindep_list.

Lemma forallb_seq (f : nat -> bool) n : forallb f (seq 0 n) = true -> forall k, k < n -> f k = true.
Proof.
  intros H k L. rewrite forallb_forall in H. apply H. apply in_seq. lia.
Qed.

Section Model.
Variable table : nat -> handler.       (* terminal kind -> handler (extracted from the source) *)
Variable lit_h : handler.              (* handler of constant_value *)
Variable cont : nat -> bool.           (* coefficient id -> its element is in H1 *)
Variable affine_nm : bool.             (* coordinate element degree <= 1, in H1, gdim = tdim *)
Variable dr : option (option bool).    (* None: default_restrictions=None; Some r: the domain's default *)
Variable nidx : nat.                   (* the fresh index used by  -n(r)  =  as_tensor(-1*n(r)[i], i) *)

Definition resolve (k id : nat) : handler :=
  match table k with
  | HCoefficient => if cont id then HDefault else HRequire
  | HFacetNormal => if affine_nm then HOpposite else HRequire
  | h => h
  end.

(* -o  as Python builds it (_neg = -1 * o; scalar * tensor goes through as_tensor) *)
Definition neg_of (o : expr) (sh : list nat) : result expr :=
  match sh with
  | [] => OK (Product (IntV (-1)) o)
  | [d] => OK (ComponentTensor (Product (IntV (-1)) (Indexed o [Free nidx])) [(nidx, d)])
  | _ => Error EIllFormed
  end.

Definition apply_rule (h : handler) (cur : option bool) (o : expr) : result expr :=
  match h with
  | HIgnore => OK o
  | HRequire =>
      match dr, cur with
      | None, None => OK o
      | None, Some p => OK (Restricted p o)
      | Some None, None => OK o
      | Some (Some _), None => Error EMissing
      | Some None, Some _ => Error EInconsistent
      | Some (Some _), Some p => OK (Restricted p o)
      end
  | HDefault =>
      match dr, cur with
      | None, None => OK o
      | None, Some p => OK (Restricted p o)
      | Some None, None => OK o
      | Some (Some q), None => OK (Restricted q o)
      | Some None, Some _ => Error EInconsistent
      | Some (Some _), Some p => OK (Restricted p o)
      end
  | HOpposite =>
      match dr, cur with
      | None, None => OK o
      | None, Some p => OK (Restricted p o)
      | Some None, None => OK o
      | Some (Some _), None => Error EMissing
      | Some None, Some _ => Error EInconsistent
      | Some (Some q), Some p =>
          if Bool.eqb p q then OK (Restricted q o) else neg_of (Restricted q o) (shape o)
      end
  | HCoefficient | HFacetNormal | HMissing => Error ENoRule
  end.

(* what the theorems need from a table, as one boolean check over the kinds 0..n-1 *)
Definition table_ok_at (kfn k : nat) : bool :=
  match table k with
  | HIgnore | HDefault => sindep_kind k
  | HOpposite => false
  | HCoefficient => Nat.eqb k 0
  | HFacetNormal => Nat.eqb k kfn
  | HRequire | HMissing => true
  end.

Lemma resolve_cases n kfn :
  (forall k, n <= k -> table k = HMissing) ->
  forallb (table_ok_at kfn) (seq 0 n) = true ->
  forall k id,
  (resolve k id = HIgnore \/ resolve k id = HDefault -> sindep_kind k = true \/ (k = 0 /\ cont id = true))
  /\ (resolve k id = HOpposite -> k = kfn /\ affine_nm = true).
Proof.
  intros Hd Hb k id. destruct (Nat.lt_ge_cases k n) as [L|G].
  - pose proof (forallb_seq _ _ Hb k L) as S. unfold table_ok_at in S. unfold resolve.
    destruct (table k) eqn:T.
    + split; [intros _; left; exact S | intros H; discriminate H].
    + split; [intros [H|H]; discriminate H | intros H; discriminate H].
    + split; [intros _; left; exact S | intros H; discriminate H].
    + discriminate S.
    + apply Nat.eqb_eq in S. destruct (cont id) eqn:C.
      * split; [intros _; right; split; [exact S | reflexivity] | intros H; discriminate H].
      * split; [intros [H|H]; discriminate H | intros H; discriminate H].
    + apply Nat.eqb_eq in S. destruct affine_nm.
      * split; [intros [H|H]; discriminate H | intros _; split; [exact S | reflexivity]].
      * split; [intros [H|H]; discriminate H | intros H; discriminate H].
    + split; [intros [H|H]; discriminate H | intros H; discriminate H].
  - unfold resolve. rewrite (Hd k G). split; [intros [H|H]; discriminate H | intros H; discriminate H].
Qed.

Definition form_arg_kind (k : nat) : bool := Nat.eqb k 0 || Nat.eqb k 1.

Fixpoint propagate (cur : option bool) (e : expr) {struct e} : result expr :=
  match e with
  | Zero _ _ | IntV _ | RealV _ _ | CplxV _ _ _ _ | RatV _ _ | Identity _ | PermSym _ =>
      apply_rule lit_h cur e
  | Term k id _ => apply_rule (resolve k id) cur e
  | Sum a b => rmap2 Sum (propagate cur a) (propagate cur b)
  | Product a b => rmap2 Product (propagate cur a) (propagate cur b)
  | Division a b => rmap2 Division (propagate cur a) (propagate cur b)
  | Power a b => rmap2 Power (propagate cur a) (propagate cur b)
  | Abs a => rmap1 Abs (propagate cur a)
  | Conj a => rmap1 Conj (propagate cur a)
  | Real a => rmap1 Real (propagate cur a)
  | Imag a => rmap1 Imag (propagate cur a)
  | Indexed a mi => rmap1 (fun a' => Indexed a' mi) (propagate cur a)
  | IndexSum a i d => rmap1 (fun a' => IndexSum a' i d) (propagate cur a)
  | ComponentTensor a ix => rmap1 (fun a' => ComponentTensor a' ix) (propagate cur a)
  | ListTensor es =>
      rmap1 ListTensor
        ((fix go (l : list expr) : result (list expr) :=
            match l with
            | [] => OK []
            | x :: t => rmap2 cons (propagate cur x) (go t)
            end) es)
  | Conditional c t f => rmap3 Conditional (propagate_c cur c) (propagate cur t) (propagate cur f)
  | MinV a b => rmap2 MinV (propagate cur a) (propagate cur b)
  | MaxV a b => rmap2 MaxV (propagate cur a) (propagate cur b)
  | Math fn a => rmap1 (Math fn) (propagate cur a)
  | Atan2 a b => rmap2 Atan2 (propagate cur a) (propagate cur b)
  | Bessel k nu a => rmap2 (Bessel k) (propagate cur nu) (propagate cur a)
  | Vari a _ => propagate cur a
  | Restricted p a =>
      match cur with
      | Some _ => Error EDouble
      | None => propagate (Some p) a
      end
  | Grad _ _ => apply_rule HRequire cur e
  | RefGrad a t => rmap1 (fun a' => RefGrad a' t) (propagate cur a)
  | RefValue a _ =>
      match a with
      | Term k id _ =>
          if form_arg_kind k then
            match apply_rule (resolve k id) cur a with
            | OK (Restricted p _) => OK (Restricted p e)
            | OK _ => OK e
            | Error x => Error x
            end
          else Error EIllFormed
      | _ => Error EIllFormed
      end
  | _ => Error EUnsupported
  end
with propagate_c (cur : option bool) (c : cond) {struct c} : result cond :=
  match c with
  | Cmp op a b => rmap2 (Cmp op) (propagate cur a) (propagate cur b)
  | AndC a b => rmap2 AndC (propagate_c cur a) (propagate_c cur b)
  | OrC a b => rmap2 OrC (propagate_c cur a) (propagate_c cur b)
  | NotC a => rmap1 NotC (propagate_c cur a)
  end.

Definition go_list (cur : option bool) :=
  fix go (l : list expr) : result (list expr) :=
    match l with
    | [] => OK []
    | x :: t => rmap2 cons (propagate cur x) (go t)
    end.

(* ---------------------------------------------------------------------------------------- *)
(* admissible inputs: n is the length of the component the expression is evaluated at.
   - a flipped normal is read with a component of the length of its shape (rank <= 1);
   - the exponent of a Power is not a Variable / Restricted node ([den] reads integer exponents
     syntactically);
   - operands of Grad are (gradients of) terminals (apply_derivatives ran before);
   - ReferenceValue is not applied to a flipped terminal. *)
Fixpoint adm (n : nat) (e : expr) {struct e} : bool :=
  match e with
  | Term k id sh =>
      if is_opp (resolve k id) then Nat.eqb n (length sh) && Nat.leb (length sh) 1 else true
  | Sum a b => adm n a && adm n b
  | Product a b | Division a b | MinV a b | MaxV a b | Atan2 a b | Bessel _ a b => adm 0 a && adm 0 b
  | Power a b => adm 0 a && adm 0 b && pow_ok b
  | Abs a | Conj a | Real a | Imag a | IndexSum a _ _ | Vari a _ | Restricted _ a => adm n a
  | Indexed a mi => adm (length mi) a
  | ComponentTensor a _ | Math _ a => adm 0 a
  | ListTensor es =>
      (fix all (l : list expr) : bool := match l with [] => true | x :: t => adm (n - 1) x && all t end) es
  | Conditional c t f => admc c && adm n t && adm n f
  | Grad a _ => gtarget a
  | RefGrad a _ => adm (n - 1) a
  | RefValue a _ => match a with Term k id _ => negb (is_opp (resolve k id)) | _ => true end
  | _ => true
  end
with admc (c : cond) {struct c} : bool :=
  match c with
  | Cmp _ a b => adm 0 a && adm 0 b
  | AndC a b | OrC a b => admc a && admc b
  | NotC a => admc a
  end.

(* ---------------------------------------------------------------------------------------- *)
(* (a) value *)
Section Value.
Variable A : ualg.
Add Field AfC17 : (kfield A).
Variable env : side -> nat -> nat -> list nat -> A.
Variables D DX : nat -> A -> A.
Variable ki : A.
Notation DEN := (@den A env D DX ki).
Notation DENC := (@denc A env D DX ki).

(* continuity laws, stated through the table: *)
Hypothesis Hlit : lit_h = HIgnore.
Hypothesis Hind : forall k id, resolve k id = HIgnore \/ resolve k id = HDefault ->
  forall s s' c, env s k id c = env s' k id c.
Hypothesis Hflip : forall k id, resolve k id = HOpposite ->
  forall c, env (Some false) k id c = kopp (env (Some true) k id c).

Definition s0 (cur : option bool) (s : side) : side :=
  match cur with Some p => Some p | None => s end.

Lemma flip_any p q k id c : resolve k id = HOpposite -> Bool.eqb p q = false ->
  env (Some p) k id c = kopp (env (Some q) k id c).
Proof.
  intros H E. destruct p, q; try discriminate.
  - rewrite (Hflip k id H c). ring.
  - apply Hflip. exact H.
Qed.

Lemma rule_value_term cur k id sh e' c :
  apply_rule (resolve k id) cur (Term k id sh) = OK e' ->
  adm (length c) (Term k id sh) = true ->
  forall s rho, DEN s rho e' c = env (s0 cur s) k id c.
Proof.
  intros H Ha s rho. unfold apply_rule in H.
  destruct (resolve k id) eqn:R; try discriminate.
  - injection H as <-. cbn [den]. apply Hind. left. exact R.
  - destruct dr as [[q|]|], cur as [p|]; try discriminate; injection H as <-; reflexivity.
  - destruct dr as [[q|]|], cur as [p|]; try discriminate; injection H as <-; cbn [den s0];
      try reflexivity. apply Hind. right. exact R.
  - cbn [adm] in Ha. rewrite R in Ha. cbn [is_opp] in Ha.
    apply andb_prop in Ha. destruct Ha as [Hn Hl]. apply Nat.eqb_eq in Hn. apply Nat.leb_le in Hl.
    destruct dr as [[q|]|], cur as [p|]; try discriminate; try (injection H as <-; reflexivity).
    destruct (Bool.eqb p q) eqn:E.
    + injection H as <-. apply eqb_prop in E. subst q. reflexivity.
    + cbn [shape] in H. unfold neg_of in H.
      destruct sh as [|d [|d2 sh]]; cbn [length] in *; try lia.
      * injection H as <-. destruct c; [|discriminate]. cbn [den s0].
        rewrite (flip_any p q k id [] R E). cbn [of_Z of_pos]. ring.
      * injection H as <-. destruct c as [|c0 [|c1 c]]; try discriminate. cbn [den s0 upds map].
        cbn [idxval upd]. rewrite Nat.eqb_refl.
        rewrite (flip_any p q k id [c0] R E). cbn [of_Z of_pos]. ring.
Qed.

Lemma rule_value_require cur o e' c :
  apply_rule HRequire cur o = OK e' ->
  forall s rho, DEN s rho e' c = DEN (s0 cur s) rho o c.
Proof.
  intros H s rho. unfold apply_rule in H.
  destruct dr as [[q|]|], cur as [p|]; try discriminate; injection H as <-; reflexivity.
Qed.

Ltac inv1 H := match type of H with rmap1 _ ?r = OK _ =>
  let x := fresh "x" in let E := fresh "E" in
  destruct r as [x|] eqn:E; cbn [rmap1] in H; [injection H as <- | discriminate] end.
Ltac inv2 H := match type of H with rmap2 _ ?r1 ?r2 = OK _ =>
  let x := fresh "x" in let y := fresh "y" in let E1 := fresh "E" in let E2 := fresh "E" in
  destruct r1 as [x|] eqn:E1; [destruct r2 as [y|] eqn:E2|]; cbn [rmap2] in H;
  [injection H as <- | discriminate | discriminate] end.
Ltac inv3 H := match type of H with rmap3 _ ?r1 ?r2 ?r3 = OK _ =>
  let x := fresh "x" in let y := fresh "y" in let z := fresh "z" in
  let E1 := fresh "E" in let E2 := fresh "E" in let E3 := fresh "E" in
  destruct r1 as [x|] eqn:E1; [destruct r2 as [y|] eqn:E2; [destruct r3 as [z|] eqn:E3|]|];
  cbn [rmap3] in H; [injection H as <- | discriminate | discriminate | discriminate] end.
Ltac split_adm Ha := cbn [adm admc] in Ha; repeat (apply andb_prop in Ha; let H2 := fresh "Ha" in destruct Ha as [Ha H2]).

(* exponent: the propagated exponent is an integer literal exactly when the exponent is *)
Lemma pow_lit cur b b' : propagate cur b = OK b' -> pow_ok b = true ->
  (exists z, b = IntV z /\ b' = IntV z) \/
  ((forall z, b <> IntV z) /\ (forall z, b' <> IntV z)).
Proof.
  intros H Hp. destruct b; cbn [pow_ok] in Hp; try discriminate; cbn [propagate] in H;
  try (match type of H with apply_rule lit_h _ _ = _ => rewrite Hlit in H; cbn [apply_rule] in H; injection H as <- end);
  try (left; eexists; split; reflexivity);
  try (right; split; intros; discriminate);
  try (right; split; [intros; discriminate|]; intros z0 Hz;
       first [ inv1 H | inv2 H | inv3 H ]; discriminate).
  - (* Term *) right. split; [intros; discriminate|]. intros z0 Hz. subst b'.
    unfold apply_rule in H. destruct (resolve k id); try discriminate;
    destruct dr as [[q|]|], cur as [p|]; try discriminate.
    destruct (Bool.eqb p q); [discriminate|]. unfold neg_of in H. destruct (shape (Term k id sh)) as [|? [|? ?]]; discriminate.
  - (* Grad *) right. split; [intros; discriminate|]. intros z0 Hz. subst b'.
    unfold apply_rule in H. destruct dr as [[q|]|], cur as [p|]; discriminate.
  - (* RefValue *) right. split; [intros; discriminate|]. intros z0 Hz. subst b'.
    destruct b; try discriminate. destruct (form_arg_kind k); [|discriminate].
    destruct (apply_rule (resolve k id) cur (Term k id sh0)) as [[]|]; discriminate.
Qed.

Fixpoint value_e (e : expr) {struct e} : forall cur e' c,
  propagate cur e = OK e' -> adm (length c) e = true ->
  forall s rho, DEN s rho e' c = DEN (s0 cur s) rho e c
with value_c (cn : cond) {struct cn} : forall cur cn',
  propagate_c cur cn = OK cn' -> admc cn = true ->
  forall s rho, DENC s rho cn' = DENC (s0 cur s) rho cn.
Proof.
  - intros cur e' c H Ha s rho; destruct e; cbn [propagate] in H; try discriminate;
    try (rewrite Hlit in H; cbn [apply_rule] in H; injection H as <-; reflexivity).
    + (* Term *) rewrite (rule_value_term _ _ _ _ _ _ H Ha). reflexivity.
    + (* Sum *) inv2 H. split_adm Ha. cbn [den].
      rewrite (value_e e1 _ _ _ E Ha), (value_e e2 _ _ _ E0 Ha0). reflexivity.
    + (* Product *) inv2 H. split_adm Ha. cbn [den].
      rewrite (value_e e1 _ _ [] E Ha), (value_e e2 _ _ [] E0 Ha0). reflexivity.
    + (* Division *) inv2 H. split_adm Ha. cbn [den].
      rewrite (value_e e1 _ _ [] E Ha), (value_e e2 _ _ [] E0 Ha0). reflexivity.
    + (* Power *) inv2 H. split_adm Ha.
      pose proof (value_e e1 _ _ [] E Ha s rho) as V1.
      pose proof (value_e e2 _ _ [] E0 Ha1 s rho) as V2.
      destruct (pow_lit _ _ _ E0 Ha0) as [[z [-> ->]]|[N1 N2]].
      * cbn [den]. destruct z; rewrite ?V1; reflexivity.
      * assert (G : forall (a b : expr) s rho c, (forall z, b <> IntV z) ->
                  DEN s rho (Power a b) c = kpow (DEN s rho a []) (DEN s rho b [])).
        { clear. intros a b s rho c N. cbn [den]. destruct b; try reflexivity. exfalso. apply (N z). reflexivity. }
        rewrite (G _ _ _ _ _ N2), (G _ _ _ _ _ N1), V1, V2. reflexivity.
    + (* Abs *) inv1 H. cbn [den]. rewrite (value_e e _ _ _ E Ha). reflexivity.
    + inv1 H. cbn [den]. rewrite (value_e e _ _ _ E Ha). reflexivity.
    + inv1 H. cbn [den]. rewrite (value_e e _ _ _ E Ha). reflexivity.
    + inv1 H. cbn [den]. rewrite (value_e e _ _ _ E Ha). reflexivity.
    + (* Indexed *) inv1 H. cbn [den]. cbn [adm] in Ha.
      apply (value_e e _ _ _ E). rewrite map_length. exact Ha.
    + (* IndexSum *) inv1 H. cbn [den]. apply ksum_ext. intros k _. apply (value_e e _ _ _ E Ha).
    + (* ComponentTensor *) inv1 H. cbn [den]. apply (value_e e _ _ [] E Ha).
    + (* ListTensor *) inv1 H. cbn [den]. destruct c as [|k c']; [reflexivity|].
      cbn [adm length] in Ha. replace (S (length c') - 1) with (length c') in Ha by lia.
      revert x E k Ha. induction es as [|x0 t IHt]; intros x E k Ha.
      * cbn in E. injection E as <-. reflexivity.
      * cbn in E. inv2 E. apply andb_prop in Ha. destruct Ha as [Ha1 Ha2].
        destruct k as [|k]; [apply (value_e x0 _ _ _ E0 Ha1) | apply (IHt _ eq_refl k Ha2)].
    + (* Conditional *) inv3 H. split_adm Ha. cbn [den].
      rewrite (value_c c0 _ _ E Ha), (value_e e1 _ _ _ E0 Ha1), (value_e e2 _ _ _ E1 Ha0). reflexivity.
    + (* MinV *) inv2 H. split_adm Ha. cbn [den].
      rewrite (value_e e1 _ _ [] E Ha), (value_e e2 _ _ [] E0 Ha0). reflexivity.
    + inv2 H. split_adm Ha. cbn [den].
      rewrite (value_e e1 _ _ [] E Ha), (value_e e2 _ _ [] E0 Ha0). reflexivity.
    + (* Math *) inv1 H. cbn [den]. rewrite (value_e e _ _ [] E Ha). reflexivity.
    + (* Atan2 *) inv2 H. split_adm Ha. cbn [den].
      rewrite (value_e e1 _ _ [] E Ha), (value_e e2 _ _ [] E0 Ha0). reflexivity.
    + (* Bessel *) inv2 H. split_adm Ha. cbn [den].
      rewrite (value_e e1 _ _ [] E Ha), (value_e e2 _ _ [] E0 Ha0). reflexivity.
    + (* Vari *) cbn [den]. apply (value_e e _ _ _ H Ha).
    + (* Restricted *) destruct cur; [discriminate|]. cbn [den s0].
      rewrite (value_e e _ _ _ H Ha). reflexivity.
    + (* Grad *) apply (rule_value_require _ _ _ _ H).
    + (* RefGrad *) inv1 H. cbn [den]. unfold split_last. cbn [adm] in Ha.
      destruct c as [|c0 c']; cbn [length] in Ha.
      * cbn [removelast]. rewrite (value_e e _ _ [] E Ha). reflexivity.
      * assert (L : length (removelast (c0 :: c')) = S (length c') - 1).
        { clear. revert c0; induction c' as [|c1 c' IH]; intros c0; [reflexivity|].
          change (removelast (c0 :: c1 :: c')) with (c0 :: removelast (c1 :: c')).
          cbn [length]. rewrite IH. cbn [length]. lia. }
        rewrite <- L in Ha. rewrite (value_e e _ _ _ E Ha). reflexivity.
    + (* RefValue *) destruct e; try discriminate.
      destruct (form_arg_kind k) eqn:FK; [|discriminate].
      cbn [adm] in Ha.
      assert (Hadm : adm (length c) (Term k id sh0) = true).
      { cbn [adm]. destruct (is_opp (resolve k id)); [discriminate | reflexivity]. }
      destruct (apply_rule (resolve k id) cur (Term k id sh0)) as [g|] eqn:R; [|discriminate].
      pose proof (rule_value_term _ _ _ _ _ c R Hadm) as V.
      assert (Hg : (exists p, g = Restricted p (Term k id sh0)) \/ g = Term k id sh0).
      { unfold apply_rule in R. destruct (resolve k id); try discriminate;
        destruct dr as [[q|]|], cur as [p|]; try discriminate;
        try (injection R as <-; (left; eexists; reflexivity) || (right; reflexivity)). }
      destruct Hg as [[p ->]| ->].
      * injection H as <-. cbn [den]. specialize (V s rho). cbn [den] in V. exact V.
      * assert (e' = RefValue (Term k id sh0) sh) by (destruct (Term k id sh0); injection H as <-; reflexivity).
        subst e'. cbn [den]. specialize (V s rho). cbn [den] in V. exact V.
  - destruct cn; intros cur cn' H Ha s rho; cbn [propagate_c] in H.
    + inv2 H. split_adm Ha. cbn [denc].
      rewrite (value_e a _ _ [] E Ha), (value_e b _ _ [] E0 Ha0). reflexivity.
    + inv2 H. split_adm Ha. cbn [denc]. rewrite (value_c cn1 _ _ E Ha), (value_c cn2 _ _ E0 Ha0). reflexivity.
    + inv2 H. split_adm Ha. cbn [denc]. rewrite (value_c cn1 _ _ E Ha), (value_c cn2 _ _ E0 Ha0). reflexivity.
    + inv1 H. cbn [denc]. rewrite (value_c cn _ _ E Ha). reflexivity.
Qed.

(* (a) VALUE: the propagated integrand has the two-sided value of the original one *)
Theorem C17_value e e' c : propagate None e = OK e' -> adm (length c) e = true ->
  forall rho, DEN None rho e' c = DEN None rho e c.
Proof. intros H Ha rho. apply (value_e e None e' c H Ha None rho). Qed.

(* inside a restriction the result does not depend on the outer side any more *)
Theorem C17_value_inside p e e' c : propagate (Some p) e = OK e' -> adm (length c) e = true ->
  forall s rho, DEN s rho e' c = DEN (Some p) rho e c.
Proof. intros H Ha s rho. apply (value_e e (Some p) e' c H Ha s rho). Qed.

End Value.

(* ---------------------------------------------------------------------------------------- *)
(* (b) once: shape of the output *)

(* what a Restricted node may wrap in the output *)
Definition rtarget (a : expr) : bool :=
  match a with
  | Term k id _ => negb (is_ign (resolve k id))
  | Grad b _ => gtarget b
  | RefValue (Term k id _) _ => negb (is_ign (resolve k id))
  | _ => false
  end.

Fixpoint once_ok (e : expr) {struct e} : bool :=
  match e with
  | Zero _ _ | IntV _ | RealV _ _ | CplxV _ _ _ _ | RatV _ _ | Identity _ | PermSym _ => true
  | Term k id _ => is_ign (resolve k id)
  | Restricted _ a => rtarget a
  | Grad _ _ | Div _ _ | NablaGrad _ _ | NablaDiv _ _ | Curl _ => false
  | RefValue a _ => match a with Term k id _ => is_ign (resolve k id) | _ => false end
  | Sum a b | Product a b | Division a b | Power a b | MinV a b | MaxV a b | Atan2 a b
  | Bessel _ a b | Outer a b | Inner a b | Dot a b | Cross a b => once_ok a && once_ok b
  | Abs a | Conj a | Real a | Imag a | Indexed a _ | IndexSum a _ _ | ComponentTensor a _
  | Math _ a | Vari a _ | RefGrad a _ | Transposed a | Perp a | Trace a | Determinant a
  | Inverse a | Cofactor a | Deviatoric a | Skew a | Sym a => once_ok a
  | ListTensor es => (fix all (l : list expr) : bool := match l with [] => true | x :: t => once_ok x && all t end) es
  | Conditional c t f => once_c c && once_ok t && once_ok f
  end
with once_c (c : cond) {struct c} : bool :=
  match c with
  | Cmp _ a b => once_ok a && once_ok b
  | AndC a b | OrC a b => once_c a && once_c b
  | NotC a => once_c a
  end.

Section Once.
Hypothesis Hlit : lit_h = HIgnore.
Variable r0 : bool.
Hypothesis Hdr : dr = Some (Some r0).

Ltac inv1 H := match type of H with rmap1 _ ?r = OK _ =>
  let x := fresh "x" in let E := fresh "E" in
  destruct r as [x|] eqn:E; cbn [rmap1] in H; [injection H as <- | discriminate] end.
Ltac inv2 H := match type of H with rmap2 _ ?r1 ?r2 = OK _ =>
  let x := fresh "x" in let y := fresh "y" in let E1 := fresh "E" in let E2 := fresh "E" in
  destruct r1 as [x|] eqn:E1; [destruct r2 as [y|] eqn:E2|]; cbn [rmap2] in H;
  [injection H as <- | discriminate | discriminate] end.
Ltac inv3 H := match type of H with rmap3 _ ?r1 ?r2 ?r3 = OK _ =>
  let x := fresh "x" in let y := fresh "y" in let z := fresh "z" in
  let E1 := fresh "E" in let E2 := fresh "E" in let E3 := fresh "E" in
  destruct r1 as [x|] eqn:E1; [destruct r2 as [y|] eqn:E2; [destruct r3 as [z|] eqn:E3|]|];
  cbn [rmap3] in H; [injection H as <- | discriminate | discriminate | discriminate] end.

Lemma rule_once_term cur k id sh e' :
  apply_rule (resolve k id) cur (Term k id sh) = OK e' -> once_ok e' = true.
Proof.
  intros H. unfold apply_rule in H. rewrite Hdr in H.
  destruct (resolve k id) eqn:R; try discriminate.
  - injection H as <-. cbn [once_ok]. rewrite R. reflexivity.
  - destruct cur; [|discriminate]. injection H as <-. cbn [once_ok rtarget]. rewrite R. reflexivity.
  - destruct cur; injection H as <-; cbn [once_ok rtarget]; rewrite R; reflexivity.
  - destruct cur as [p|]; [|discriminate]. destruct (Bool.eqb p r0).
    + injection H as <-. cbn [once_ok rtarget]. rewrite R. reflexivity.
    + unfold neg_of in H. destruct (shape (Term k id sh)) as [|d [|? ?]]; try discriminate;
      injection H as <-; cbn [once_ok rtarget]; rewrite R; reflexivity.
Qed.

Fixpoint once_e (e : expr) {struct e} : forall cur e' n,
  propagate cur e = OK e' -> adm n e = true -> once_ok e' = true
with once_cn (cn : cond) {struct cn} : forall cur cn',
  propagate_c cur cn = OK cn' -> admc cn = true -> once_c cn' = true.
Proof.
  - intros cur e' n H Ha; destruct e; cbn [propagate] in H; try discriminate;
    try (rewrite Hlit in H; cbn [apply_rule] in H; injection H as <-; reflexivity);
    try (inv2 H; cbn [adm] in Ha; repeat (apply andb_prop in Ha; destruct Ha as [Ha ?]);
         cbn [once_ok]; rewrite (once_e e1 _ _ _ E), (once_e e2 _ _ _ E0) by eassumption; reflexivity);
    try (inv1 H; cbn [adm] in Ha; cbn [once_ok]; apply (once_e e _ _ _ E Ha)).
    + apply (rule_once_term _ _ _ _ _ H).
    + (* ListTensor *) inv1 H. cbn [once_ok]. cbn [adm] in Ha.
      revert x E Ha. induction es as [|x0 t IHt]; intros x E Ha.
      * cbn in E. injection E as <-. reflexivity.
      * cbn in E. inv2 E. apply andb_prop in Ha. destruct Ha as [Ha1 Ha2].
        rewrite (once_e x0 _ _ _ E0 Ha1). apply (IHt _ eq_refl Ha2).
    + (* Conditional *) inv3 H. cbn [adm] in Ha. repeat (apply andb_prop in Ha; destruct Ha as [Ha ?]).
      cbn [once_ok]. rewrite (once_cn c _ _ E Ha), (once_e e1 _ _ _ E0), (once_e e2 _ _ _ E1) by eassumption.
      reflexivity.
    + (* Vari *) apply (once_e e _ _ _ H Ha).
    + (* Restricted *) destruct cur; [discriminate|]. apply (once_e e _ _ _ H Ha).
    + (* Grad *) unfold apply_rule in H. rewrite Hdr in H. destruct cur; [|discriminate].
      injection H as <-. cbn [once_ok rtarget]. exact Ha.
    + (* RefValue *) destruct e; try discriminate. destruct (form_arg_kind k); [|discriminate].
      destruct (apply_rule (resolve k id) cur (Term k id sh0)) as [g|] eqn:R; [|discriminate].
      pose proof (rule_once_term _ _ _ _ _ R) as O.
      unfold apply_rule in R. rewrite Hdr in R.
      destruct (resolve k id) eqn:RR; try discriminate.
      * injection R as <-. injection H as <-. cbn [once_ok]. rewrite RR. reflexivity.
      * destruct cur; [|discriminate]. injection R as <-. injection H as <-. cbn [once_ok rtarget]. rewrite RR. reflexivity.
      * destruct cur; injection R as <-; injection H as <-; cbn [once_ok rtarget]; rewrite RR; reflexivity.
      * cbn [adm] in Ha. rewrite RR in Ha. discriminate.
  - destruct cn; intros cur cn' H Ha; cbn [propagate_c] in H; cbn [admc] in Ha.
    + inv2 H. apply andb_prop in Ha. destruct Ha. cbn [once_c].
      rewrite (once_e a _ _ _ E), (once_e b _ _ _ E0) by eassumption. reflexivity.
    + inv2 H. apply andb_prop in Ha. destruct Ha. cbn [once_c].
      rewrite (once_cn cn1 _ _ E), (once_cn cn2 _ _ E0) by eassumption. reflexivity.
    + inv2 H. apply andb_prop in Ha. destruct Ha. cbn [once_c].
      rewrite (once_cn cn1 _ _ E), (once_cn cn2 _ _ E0) by eassumption. reflexivity.
    + inv1 H. cbn [once_c]. apply (once_cn cn _ _ E Ha).
Qed.

(* (b) ONCE *)
Theorem C17_once e e' n : propagate None e = OK e' -> adm n e = true -> once_ok e' = true.
Proof. apply once_e. Qed.

End Once.

(* ---------------------------------------------------------------------------------------- *)
(* (b') propagated normal form when NO default restriction is configured (default_restrictions=None,
   compute_form_data(do_apply_restrictions=True, do_apply_default_restrictions=False)): every
   Restricted node of the output sits directly on a terminal of a non-ignored class, on a Grad of
   terminals or on the ReferenceValue of such a terminal; unrestricted terminals stay as they are. *)
Fixpoint prop_ok (e : expr) {struct e} : bool :=
  match e with
  | Zero _ _ | IntV _ | RealV _ _ | CplxV _ _ _ _ | RatV _ _ | Identity _ | PermSym _ => true
  | Term _ _ _ => true
  | Restricted _ a => rtarget a
  | Grad a _ => gtarget a
  | Div _ _ | NablaGrad _ _ | NablaDiv _ _ | Curl _ => false
  | RefValue a _ => match a with Term _ _ _ => true | _ => false end
  | Sum a b | Product a b | Division a b | Power a b | MinV a b | MaxV a b | Atan2 a b
  | Bessel _ a b | Outer a b | Inner a b | Dot a b | Cross a b => prop_ok a && prop_ok b
  | Abs a | Conj a | Real a | Imag a | Indexed a _ | IndexSum a _ _ | ComponentTensor a _
  | Math _ a | Vari a _ | RefGrad a _ | Transposed a | Perp a | Trace a | Determinant a
  | Inverse a | Cofactor a | Deviatoric a | Skew a | Sym a => prop_ok a
  | ListTensor es => (fix all (l : list expr) : bool := match l with [] => true | x :: t => prop_ok x && all t end) es
  | Conditional c t f => prop_c c && prop_ok t && prop_ok f
  end
with prop_c (c : cond) {struct c} : bool :=
  match c with
  | Cmp _ a b => prop_ok a && prop_ok b
  | AndC a b | OrC a b => prop_c a && prop_c b
  | NotC a => prop_c a
  end.

Section Propagated.
Hypothesis Hlit : lit_h = HIgnore.
Hypothesis Hdr : dr = None.

Ltac inv1 H := match type of H with rmap1 _ ?r = OK _ =>
  let x := fresh "x" in let E := fresh "E" in
  destruct r as [x|] eqn:E; cbn [rmap1] in H; [injection H as <- | discriminate] end.
Ltac inv2 H := match type of H with rmap2 _ ?r1 ?r2 = OK _ =>
  let x := fresh "x" in let y := fresh "y" in let E1 := fresh "E" in let E2 := fresh "E" in
  destruct r1 as [x|] eqn:E1; [destruct r2 as [y|] eqn:E2|]; cbn [rmap2] in H;
  [injection H as <- | discriminate | discriminate] end.
Ltac inv3 H := match type of H with rmap3 _ ?r1 ?r2 ?r3 = OK _ =>
  let x := fresh "x" in let y := fresh "y" in let z := fresh "z" in
  let E1 := fresh "E" in let E2 := fresh "E" in let E3 := fresh "E" in
  destruct r1 as [x|] eqn:E1; [destruct r2 as [y|] eqn:E2; [destruct r3 as [z|] eqn:E3|]|];
  cbn [rmap3] in H; [injection H as <- | discriminate | discriminate | discriminate] end.

Lemma rule_prop_term cur k id sh e' :
  apply_rule (resolve k id) cur (Term k id sh) = OK e' ->
  prop_ok e' = true /\ (e' = Term k id sh \/ exists p, e' = Restricted p (Term k id sh)).
Proof.
  intros H. unfold apply_rule in H. rewrite Hdr in H.
  destruct (resolve k id) eqn:R; try discriminate;
  try (destruct cur; injection H as <-; cbn [prop_ok rtarget]; rewrite ?R;
       (split; [reflexivity | first [left; reflexivity | right; eexists; reflexivity]])).
Qed.

Fixpoint prop_e (e : expr) {struct e} : forall cur e' n,
  propagate cur e = OK e' -> adm n e = true -> prop_ok e' = true
with prop_cn (cn : cond) {struct cn} : forall cur cn',
  propagate_c cur cn = OK cn' -> admc cn = true -> prop_c cn' = true.
Proof.
  - intros cur e' n H Ha; destruct e; cbn [propagate] in H; try discriminate;
    try (rewrite Hlit in H; cbn [apply_rule] in H; injection H as <-; reflexivity);
    try (inv2 H; cbn [adm] in Ha; repeat (apply andb_prop in Ha; destruct Ha as [Ha ?]);
         cbn [prop_ok]; rewrite (prop_e e1 _ _ _ E), (prop_e e2 _ _ _ E0) by eassumption; reflexivity);
    try (inv1 H; cbn [adm] in Ha; cbn [prop_ok]; apply (prop_e e _ _ _ E Ha)).
    + apply (proj1 (rule_prop_term _ _ _ _ _ H)).
    + (* ListTensor *) inv1 H. cbn [prop_ok]. cbn [adm] in Ha.
      revert x E Ha. induction es as [|x0 t IHt]; intros x E Ha.
      * cbn in E. injection E as <-. reflexivity.
      * cbn in E. inv2 E. apply andb_prop in Ha. destruct Ha as [Ha1 Ha2].
        rewrite (prop_e x0 _ _ _ E0 Ha1). apply (IHt _ eq_refl Ha2).
    + (* Conditional *) inv3 H. cbn [adm] in Ha. repeat (apply andb_prop in Ha; destruct Ha as [Ha ?]).
      cbn [prop_ok]. rewrite (prop_cn c _ _ E Ha), (prop_e e1 _ _ _ E0), (prop_e e2 _ _ _ E1) by eassumption.
      reflexivity.
    + (* Vari *) apply (prop_e e _ _ _ H Ha).
    + (* Restricted *) destruct cur; [discriminate|]. apply (prop_e e _ _ _ H Ha).
    + (* Grad *) unfold apply_rule in H. rewrite Hdr in H. cbn [adm] in Ha.
      destruct cur; injection H as <-; cbn [prop_ok rtarget]; exact Ha.
    + (* RefValue *) destruct e; try discriminate. destruct (form_arg_kind k); [|discriminate].
      destruct (apply_rule (resolve k id) cur (Term k id sh0)) as [g|] eqn:R; [|discriminate].
      destruct (rule_prop_term _ _ _ _ _ R) as [O [->|[p ->]]].
      * injection H as <-. reflexivity.
      * injection H as <-. cbn [prop_ok rtarget] in *. exact O.
  - destruct cn; intros cur cn' H Ha; cbn [propagate_c] in H; cbn [admc] in Ha.
    + inv2 H. apply andb_prop in Ha. destruct Ha. cbn [prop_c].
      rewrite (prop_e a _ _ _ E), (prop_e b _ _ _ E0) by eassumption. reflexivity.
    + inv2 H. apply andb_prop in Ha. destruct Ha. cbn [prop_c].
      rewrite (prop_cn cn1 _ _ E), (prop_cn cn2 _ _ E0) by eassumption. reflexivity.
    + inv2 H. apply andb_prop in Ha. destruct Ha. cbn [prop_c].
      rewrite (prop_cn cn1 _ _ E), (prop_cn cn2 _ _ E0) by eassumption. reflexivity.
    + inv1 H. cbn [prop_c]. apply (prop_cn cn _ _ E Ha).
Qed.

Theorem C17_propagated e e' n : propagate None e = OK e' -> adm n e = true -> prop_ok e' = true.
Proof. apply prop_e. Qed.

End Propagated.

(* ---------------------------------------------------------------------------------------- *)
(* (c) rejects *)

(* [bad chk inside e]: e contains a Restricted node inside a restriction, or (chk) an
   unrestricted terminal / Grad whose rule demands a restriction.  Grad operands are not
   inspected (the implementation does not visit them). *)
Definition must_restrict (h : handler) : bool :=
  match h with HRequire | HOpposite => true | _ => false end.

Fixpoint bad (chk inside : bool) (e : expr) {struct e} : bool :=
  match e with
  | Term k id _ => chk && negb inside && must_restrict (resolve k id)
  | Grad _ _ => chk && negb inside
  | Restricted _ a => inside || bad chk true a
  | RefValue a _ => match a with Term k id _ => form_arg_kind k && chk && negb inside && must_restrict (resolve k id) | _ => false end
  | Sum a b | Product a b | Division a b | Power a b | MinV a b | MaxV a b | Atan2 a b
  | Bessel _ a b => bad chk inside a || bad chk inside b
  | Abs a | Conj a | Real a | Imag a | Indexed a _ | IndexSum a _ _ | ComponentTensor a _
  | Math _ a | Vari a _ | RefGrad a _ => bad chk inside a
  | ListTensor es => (fix any (l : list expr) : bool := match l with [] => false | x :: t => bad chk inside x || any t end) es
  | Conditional c t f => bad_c chk inside c || bad chk inside t || bad chk inside f
  | _ => false
  end
with bad_c (chk inside : bool) (c : cond) {struct c} : bool :=
  match c with
  | Cmp _ a b => bad chk inside a || bad chk inside b
  | AndC a b | OrC a b => bad_c chk inside a || bad_c chk inside b
  | NotC a => bad_c chk inside a
  end.

Section Rejects.
Variable chk : bool.
Hypothesis Hchk : chk = true -> exists r, dr = Some (Some r).

Lemma rule_missing h o : chk = true -> must_restrict h = true -> is_err (apply_rule h None o).
Proof.
  intros C M. destruct (Hchk C) as [r Hr]. unfold apply_rule. rewrite Hr.
  destruct h; try discriminate; eexists; reflexivity.
Qed.

Fixpoint rej_e (e : expr) {struct e} : forall cur,
  bad chk (is_some cur) e = true -> is_err (propagate cur e)
with rej_c (cn : cond) {struct cn} : forall cur,
  bad_c chk (is_some cur) cn = true -> is_err (propagate_c cur cn).
Proof.
  - destruct e; intros cur Hb; cbn [bad] in Hb; try discriminate; cbn [propagate];
    try (apply orb_prop in Hb; destruct Hb as [Hb|Hb];
         [apply rmap2_err_l; apply (rej_e e1 _ Hb) | apply rmap2_err_r; apply (rej_e e2 _ Hb)]);
    try (apply rmap1_err; apply (rej_e e _ Hb)).
    + (* Term *) apply andb_prop in Hb. destruct Hb as [Hb M]. apply andb_prop in Hb. destruct Hb as [C I].
      destruct cur; [discriminate|]. apply rule_missing; assumption.
    + (* ListTensor *) apply rmap1_err. induction es as [|x t IHt]; [discriminate|].
      apply orb_prop in Hb. destruct Hb as [Hb|Hb].
      * apply rmap2_err_l. apply (rej_e x _ Hb).
      * apply rmap2_err_r. apply IHt. exact Hb.
    + (* Conditional *) apply orb_prop in Hb. destruct Hb as [Hb|Hb]; [apply orb_prop in Hb; destruct Hb as [Hb|Hb]|].
      * apply rmap3_err_1. apply (rej_c c _ Hb).
      * apply rmap3_err_2. apply (rej_e e1 _ Hb).
      * apply rmap3_err_3. apply (rej_e e2 _ Hb).
    + (* Vari *) apply (rej_e e _ Hb).
    + (* Restricted *) destruct cur as [p|]; [eexists; reflexivity|]. cbn [is_some orb] in Hb.
      apply (rej_e e (Some plus) Hb).
    + (* Grad *) apply andb_prop in Hb. destruct Hb as [C I]. destruct cur; [discriminate|].
      apply rule_missing; [exact C | reflexivity].
    + (* RefValue *) destruct e; try discriminate.
      apply andb_prop in Hb. destruct Hb as [Hb M]. apply andb_prop in Hb. destruct Hb as [Hb I].
      apply andb_prop in Hb. destruct Hb as [F C]. rewrite F. destruct cur; [discriminate|].
      destruct (rule_missing (resolve k id) (Term k id sh0) C M) as [er ->]. eexists; reflexivity.
  - destruct cn; intros cur Hb; cbn [bad_c] in Hb; cbn [propagate_c].
    + apply orb_prop in Hb. destruct Hb as [Hb|Hb]; [apply rmap2_err_l; apply (rej_e a _ Hb) | apply rmap2_err_r; apply (rej_e b _ Hb)].
    + apply orb_prop in Hb. destruct Hb as [Hb|Hb]; [apply rmap2_err_l; apply (rej_c cn1 _ Hb) | apply rmap2_err_r; apply (rej_c cn2 _ Hb)].
    + apply orb_prop in Hb. destruct Hb as [Hb|Hb]; [apply rmap2_err_l; apply (rej_c cn1 _ Hb) | apply rmap2_err_r; apply (rej_c cn2 _ Hb)].
    + apply rmap1_err. apply (rej_c cn _ Hb).
Qed.

(* (c) REJECTS *)
Theorem C17_rejects e : bad chk false e = true -> is_err (propagate None e).
Proof. apply (rej_e e None). Qed.

End Rejects.

End Model.

(* double restriction is rejected for every table and every default-restriction setting *)
Corollary C17_rejects_double table lit_h cont aff dr nidx e :
  bad table cont aff false false e = true -> is_err (propagate table lit_h cont aff dr nidx None e).
Proof. apply C17_rejects. intros; discriminate. Qed.

(* missing restriction is rejected whenever a default restriction is configured *)
Corollary C17_rejects_missing table lit_h cont aff r nidx e :
  bad table cont aff true false e = true ->
  is_err (propagate table lit_h cont aff (Some (Some r)) nidx None e).
Proof. apply C17_rejects. intros _. exists r. reflexivity. Qed.

(* REFUTED half of "missing restrictions are rejected, default restriction on/off": with
   default_restrictions=None (compute_form_data(do_apply_default_restrictions=False)) the rule
   _require_restriction returns the operand unchanged, so an unrestricted discontinuous terminal on
   an interior facet passes. *)
Theorem C17_defaults_off_accepts_missing table lit_h cont aff nidx k id sh :
  must_restrict (resolve table cont aff k id) = true ->
  bad table cont aff true false (Term k id sh) = true /\
  propagate table lit_h cont aff None nidx None (Term k id sh) = OK (Term k id sh).
Proof.
  intros M. split.
  - cbn [bad]. rewrite M. reflexivity.
  - cbn [propagate]. unfold apply_rule. destruct (resolve table cont aff k id); try discriminate; reflexivity.
Qed.

Print Assumptions C17_value.
Print Assumptions C17_value_inside.
Print Assumptions C17_once.
Print Assumptions C17_propagated.
Print Assumptions C17_rejects.
Print Assumptions C17_rejects_double.
Print Assumptions C17_rejects_missing.
Print Assumptions C17_defaults_off_accepts_missing.
