(* C14, hand-written theorems about the model of the arity checker (C14_model.v):
   for ALL expressions and every UFL algebra, an accepted integrand is (conjugate-)linear, jointly in
   the arguments of each number, and contains exactly the arguments of its arity.
   (The two defects that earlier required guards - list tensors with non-zero constant components, Dot
   booked as conjugating - have been repaired in /repo; the model follows the repaired handlers, the
   theorem holds without guards, and the former counterexamples are now proved to be REJECTED:
   [C14_list_tensor_constant_rejected], [C14_dot_not_conjugating].) *)
Require Import UFLV.Core.Den UFLV.Props.C14_model.
Require Import Lia.

(* ---------------------------------------------------------------------------------------------- *)
(* arities as finite sets                                                                           *)

Lemma pair_eqb_eq x y : pair_eqb x y = true -> x = y.
Proof.
  destruct x as [i f], y as [j g]. unfold pair_eqb. cbn. intros H.
  apply andb_prop in H. destruct H as [H1 H2]. apply Nat.eqb_eq in H1. apply eqb_prop in H2. congruence.
Qed.

Lemma In_ins z x l : In z (ins x l) <-> z = x \/ In z l.
Proof.
  induction l as [|y t IH]; cbn [ins].
  - cbn. intuition.
  - destruct (pair_eqb x y) eqn:E.
    + apply pair_eqb_eq in E. subst y. cbn. intuition.
    + destruct (pair_ltb x y); cbn [In]; [intuition|]. rewrite IH. intuition.
Qed.

Lemma In_union z a b : In z (a_union a b) <-> In z a \/ In z b.
Proof.
  unfold a_union. induction a as [|x t IH]; cbn [fold_right In]; [intuition|].
  rewrite In_ins, IH. intuition.
Qed.

Lemma In_fold_ins z l : In z (fold_right ins [] l) <-> In z l.
Proof. induction l as [|x t IH]; cbn [fold_right In]; [intuition|]. rewrite In_ins, IH. intuition. Qed.

Lemma In_conj i f a : In (i, f) (a_conj a) <-> In (i, negb f) a.
Proof.
  unfold a_conj. rewrite In_fold_ins, in_map_iff. split.
  - intros [[j g] [E H]]. unfold flip in E. cbn in E. inversion E; subst. rewrite negb_involutive. exact H.
  - intros H. exists (i, negb f). split; [unfold flip; cbn; rewrite negb_involutive; reflexivity|exact H].
Qed.

Lemma aeqb_eq a b : aeqb a b = true -> a = b.
Proof.
  revert b. induction a as [|x s IH]; intros [|y t]; cbn [aeqb]; try discriminate; [reflexivity|].
  intros H. apply andb_prop in H. destruct H as [H1 H2]. apply pair_eqb_eq in H1. apply IH in H2. congruence.
Qed.

Lemma In_ins_nat z x l : In z (ins_nat x l) <-> z = x \/ In z l.
Proof.
  induction l as [|y t IH]; cbn [ins_nat].
  - cbn. intuition.
  - destruct (Nat.eqb x y) eqn:E.
    + apply Nat.eqb_eq in E. subst y. cbn. intuition.
    + destruct (Nat.ltb x y); cbn [In]; [intuition|]. rewrite IH. intuition.
Qed.

Lemma nat_list_eqb_eq a b : nat_list_eqb a b = true -> a = b.
Proof.
  revert b. induction a as [|x s IH]; intros [|y t]; cbn [nat_list_eqb]; try discriminate; [reflexivity|].
  intros H. apply andb_prop in H. destruct H as [H1 H2]. apply Nat.eqb_eq in H1. apply IH in H2. congruence.
Qed.

Section Sets.
Variable num : nat -> nat.

Lemma In_nums n a : In n (nums num a) <-> exists p, In p a /\ num (fst p) = n.
Proof.
  unfold nums. induction a as [|x t IH]; cbn [map fold_right In].
  - split; [intros []|intros [p [[] _]]].
  - rewrite In_ins_nat, IH. split.
    + intros [->|[p [Hp E]]]; [exists x; auto|exists p; auto].
    + intros [p [[<-|Hp] E]]; [left; auto|right; exists p; auto].
Qed.

Lemma all_equal_spec ns x y : all_equal ns = true -> In x ns -> In y ns -> x = y.
Proof.
  destruct ns as [|z t]; [intros _ []|]. cbn [all_equal]. intros H Hx Hy.
  rewrite forallb_forall in H.
  assert (E : forall w, In w (z :: t) -> z = w).
  { intros w [<-|Hw]; [reflexivity|]. apply nat_list_eqb_eq, H, Hw. }
  rewrite <- (E x Hx), <- (E y Hy). reflexivity.
Qed.

Lemma overlap_false a b :
  overlap num a b = false -> forall x y, In x a -> In y b -> num (fst x) <> num (fst y).
Proof.
  unfold overlap. intros H x y Hx Hy E.
  assert (T : existsb (fun x0 => existsb (fun y0 => Nat.eqb (num (fst x0)) (num (fst y0))) a) b = true).
  { apply existsb_exists. exists y. split; [exact Hy|]. apply existsb_exists. exists x. split; [exact Hx|].
    apply Nat.eqb_eq. congruence. }
  congruence.
Qed.

(* what an accepted product says *)
Lemma h_product_ok a b c :
  h_product num a b = OK c ->
  (forall p, In p c <-> In p a \/ In p b) /\
  (forall x y, In x a -> In y b -> num (fst x) <> num (fst y)).
Proof.
  unfold h_product. destruct a as [|a0 a']; [|destruct b as [|b0 b']].
  - intros E. inversion E; subst. split; [intros p; cbn; intuition|intros x y []].
  - intros E. inversion E; subst. split; [intros p; cbn; intuition|intros x y _ []].
  - destruct (overlap num (a0 :: a') (b0 :: b')) eqn:Ho; [discriminate|].
    match goal with |- (if ?c then _ else _) = _ -> _ => destruct c end; [|discriminate].
    intros E. injection E as <-. split; [intros p; exact (In_union p (a0 :: a') (b0 :: b'))|apply overlap_false; exact Ho].
Qed.

Lemma In_fold_union z (l : list ar) : In z (fold_right a_union [] l) <-> exists a, In a l /\ In z a.
Proof.
  induction l as [|x t IH]; cbn [fold_right In].
  - split; [intros []|intros [a [[] _]]].
  - rewrite In_union, IH. split.
    + intros [H|[a [Ha Hz]]]; [exists x; auto|exists a; auto].
    + intros [a [[<-|Ha] Hz]]; [left; auto|right; exists a; auto].
Qed.

Lemma existsb_combine_nth {X Y} (f : X * Y -> bool) : forall (es : list X) (l : list Y) k x a,
  existsb f (combine es l) = false -> nth_error es k = Some x -> nth_error l k = Some a -> f (x, a) = false.
Proof.
  induction es as [|e t IH]; intros [|b l] k x a H Hx Ha; destruct k; cbn in *; try discriminate.
  - inversion Hx; inversion Ha; subst. apply orb_false_iff in H. apply H.
  - apply orb_false_iff in H. destruct H as [_ H]. eapply IH; eauto.
Qed.

Lemma h_list_tensor_ok es l c :
  h_list_tensor num es l = OK c ->
  (forall p, In p c <-> exists a, In a l /\ In p a) /\
  (c <> [] -> forall a b, In a l -> In b l -> a <> [] -> b <> [] -> nums num a = nums num b) /\
  (c <> [] -> forall k x, nth_error es k = Some x -> nth_error l k = Some [] -> is_zero x = true).
Proof.
  unfold h_list_tensor. destruct (fold_right a_union [] l) as [|x t] eqn:E.
  - intros H. inversion H; subst. split; [|split; intros F; congruence].
    intros p. rewrite <- In_fold_union, E. reflexivity.
  - destruct (existsb bad_component (combine es l)) eqn:Hb; [discriminate|].
    destruct (all_equal (filter nonempty (map (nums num) l))) eqn:Ha; [|discriminate].
    intros H. inversion H; subst. split; [|split].
    + intros p. rewrite <- In_fold_union, E. reflexivity.
    + intros _ a b Hina Hinb Hna Hnb.
      assert (N : forall a, In a l -> a <> [] -> In (nums num a) (filter nonempty (map (nums num) l))).
      { intros a1 Hin Hne. apply filter_In. split; [apply in_map; exact Hin|].
        destruct a1 as [|p q]; [congruence|]. cbn [nums map fold_right].
        destruct (ins_nat (num (fst p)) (fold_right ins_nat [] (map (fun p0 => num (fst p0)) q))) eqn:Ei; [|reflexivity].
        exfalso. assert (In (num (fst p)) (@nil nat)) as []. rewrite <- Ei. apply In_ins_nat. auto. }
      apply (all_equal_spec _ _ _ Ha); apply N; assumption.
    + intros _ k y Hy Hk. pose proof (existsb_combine_nth _ _ _ _ _ _ Hb Hy Hk) as F.
      unfold bad_component in F. cbn in F. destruct (is_zero y); [reflexivity|discriminate].
Qed.

End Sets.

(* ---------------------------------------------------------------------------------------------- *)
(* exactness: the arity of an accepted expression lists exactly the arguments that occur           *)

Lemma has_arg_false l : existsb is_argp l = false -> forall i, ~ In (1, i) l.
Proof.
  intros H i Hin. assert (T : existsb is_argp l = true).
  { apply existsb_exists. exists (1, i). split; [exact Hin|reflexivity]. }
  congruence.
Qed.

Lemma all_ok_spec rs l : all_ok rs = Some l -> rs = map OK l.
Proof.
  revert l. induction rs as [|r t IH]; intros l; cbn [all_ok].
  - intros E. inversion E. reflexivity.
  - destruct r as [a|]; [|discriminate]. destruct (all_ok t) as [l'|]; [|discriminate].
    intros E. inversion E; subst. cbn. f_equal. apply IH. reflexivity.
Qed.

Lemma map_arity_ok num es l : map (arity num) es = map OK l ->
  length es = length l /\ forall k x a, nth_error es k = Some x -> nth_error l k = Some a -> arity num x = OK a.
Proof.
  revert l. induction es as [|e t IH]; intros [|a l]; cbn [map]; try discriminate.
  - intros _. split; [reflexivity|]. intros [|k] x a; cbn; discriminate.
  - intros E. inversion E as [[E1 E2]]. destruct (IH l E2) as [Hl Hn]. split; [cbn; lia|].
    intros [|k] x b; cbn [nth_error].
    + intros Hx Hb. inversion Hx; inversion Hb; subst. exact E1.
    + apply Hn.
Qed.

Section Exact.
Variable num : nat -> nat.

Definition exact (e : expr) (A : ar) : Prop :=
  forall i, (exists f, In (i, f) A) <-> In (1, i) (terms e).

Lemma exact_nil e : has_arg e = false -> exact e [].
Proof.
  intros H i. split; [intros [f []]|]. intros Hin. exfalso. exact (has_arg_false _ H i Hin).
Qed.

Lemma exact_nil_inv e : exact e [] -> forall i, ~ In (1, i) (terms e).
Proof. intros H i Hin. apply H in Hin. destruct Hin as [f []]. Qed.

Ltac inv_ok := match goal with H : OK _ = OK _ |- _ => inversion H; subst; clear H end.

Theorem arity_exact : forall e A, arity num e = OK A -> exact e A.
Proof.
  apply (expr_subs_ind (fun e => forall A, arity num e = OK A -> exact e A)).
  intros e IH A. rewrite arity_eq.
  assert (IHa : forall x, In x (asubs e) -> forall B, arity num x = OK B -> exact x B).
  { intros x Hx. apply IH. apply asubs_subs. exact Hx. }
  clear IH.
  destruct e; cbn [cls_of class_handler apply_handler asubs subs map];
    (* terminals *)
    try (intros E; inv_ok; intros i; cbn [terms]; split; [intros [f []]|intros []]; fail);
    (* nonlinear operators *)
    try (match goal with |- (if has_arg ?x then _ else _) = _ -> _ =>
           destruct (has_arg x) eqn:Hh; [discriminate|]; intros E; inv_ok; apply exact_nil; exact Hh end; fail);
    (* unary pass-through *)
    try (destruct (arity num e) as [a|] eqn:Ea; cbn [all_ok]; [|discriminate]; intros E; inv_ok;
         intros i; cbn [terms]; apply (IHa e (or_introl eq_refl)); exact Ea; fail).
  - (* Term *)
    destruct k as [|[|[|k]]]; cbn [class_handler apply_handler]; intros E; inv_ok; intros i; cbn [terms In].
    + split; [intros [f []]|intros [H|[]]; inversion H].
    + split; [intros [f [H|[]]]; inversion H; auto|intros [H|[]]; inversion H; exists false; auto].
    + split; [intros [f []]|intros [H|[]]; inversion H].
    + split; [intros [f []]|intros [H|[]]; inversion H].
  - (* Sum *)
    destruct (arity num e1) as [a|] eqn:Ea; cbn [all_ok]; [|discriminate].
    destruct (arity num e2) as [b|] eqn:Eb; cbn [all_ok]; [|discriminate].
    unfold h_sum. destruct (aeqb a b) eqn:Eab; [|discriminate]. intros E; inv_ok.
    apply aeqb_eq in Eab. subst b.
    pose proof (IHa e1 (or_introl eq_refl) _ Ea) as H1.
    pose proof (IHa e2 (or_intror (or_introl eq_refl)) _ Eb) as H2.
    intros i. cbn [terms]. rewrite in_app_iff, <- (H1 i), <- (H2 i). intuition.
  - (* Product *)
    destruct (arity num e1) as [a|] eqn:Ea; cbn [all_ok]; [|discriminate].
    destruct (arity num e2) as [b|] eqn:Eb; cbn [all_ok]; [|discriminate].
    intros E. apply h_product_ok in E. destruct E as [Hc _].
    pose proof (IHa e1 (or_introl eq_refl) _ Ea) as H1.
    pose proof (IHa e2 (or_intror (or_introl eq_refl)) _ Eb) as H2.
    intros i. cbn [terms]. rewrite in_app_iff, <- (H1 i), <- (H2 i). split.
    + intros [f Hf]. apply Hc in Hf. destruct Hf; [left|right]; exists f; auto.
    + intros [[f Hf]|[f Hf]]; exists f; apply Hc; auto.
  - (* Division *)
    destruct (arity num e1) as [a|] eqn:Ea; cbn [all_ok]; [|discriminate].
    destruct (arity num e2) as [b|] eqn:Eb; cbn [all_ok]; [|discriminate].
    unfold h_division. destruct b; [|discriminate]. intros E; inv_ok.
    pose proof (IHa e1 (or_introl eq_refl) _ Ea) as H1.
    pose proof (IHa e2 (or_intror (or_introl eq_refl)) _ Eb) as H2.
    intros i. cbn [terms]. rewrite in_app_iff, <- (H1 i), <- (H2 i). split; [auto|]. intros [H|[f []]]; exact H.
  - (* Conj *)
    destruct (arity num e) as [a|] eqn:Ea; cbn [all_ok]; [|discriminate]. intros E; inv_ok.
    pose proof (IHa e (or_introl eq_refl) _ Ea) as H1.
    intros i. cbn [terms]. rewrite <- (H1 i). split.
    + intros [f Hf]. apply In_conj in Hf. eauto.
    + intros [f Hf]. exists (negb f). apply In_conj. rewrite negb_involutive. exact Hf.
  - (* IndexSum *)
    destruct (arity num e) as [a|] eqn:Ea; cbn [all_ok]; [|discriminate]. intros E; inv_ok.
    intros j; cbn [terms]; apply (IHa e (or_introl eq_refl)); exact Ea.
  - (* ListTensor *)
    destruct (all_ok (map (arity num) es)) as [l|] eqn:El; [|discriminate].
    intros E. apply h_list_tensor_ok in E. destruct E as [Hc _].
    apply all_ok_spec in El. apply map_arity_ok in El. destruct El as [Hlen Hn].
    intros i. cbn [terms]. fold (lterms es). rewrite lterms_in. split.
    + intros [f Hf]. apply Hc in Hf. destruct Hf as [a [Ha Hf]].
      apply In_nth_error in Ha. destruct Ha as [k Hk].
      assert (Hx : exists x, nth_error es k = Some x).
      { destruct (nth_error es k) eqn:Ex; [eauto|]. apply nth_error_None in Ex.
        assert (k < length l) by (apply nth_error_Some; congruence). lia. }
      destruct Hx as [x Hx]. exists x. split; [eapply nth_error_In; eauto|].
      apply (IHa x (nth_error_In _ _ Hx) a (Hn _ _ _ Hx Hk)). eauto.
    + intros [x [Hx Hi]]. pose proof Hx as Hx0. apply In_nth_error in Hx. destruct Hx as [k Hk].
      assert (Ha : exists a, nth_error l k = Some a).
      { destruct (nth_error l k) eqn:Ex; [eauto|]. apply nth_error_None in Ex.
        assert (k < length es) by (apply nth_error_Some; congruence). lia. }
      destruct Ha as [a Ha].
      apply (IHa x Hx0 a (Hn _ _ _ Hk Ha)) in Hi. destruct Hi as [f Hf].
      exists f. apply Hc. exists a. split; [eapply nth_error_In; eauto|exact Hf].
  - (* Conditional *)
    destruct (arity num e1) as [a|] eqn:Ea; cbn [all_ok]; [|discriminate].
    destruct (arity num e2) as [b|] eqn:Eb; cbn [all_ok]; [|discriminate].
    destruct (has_arg_c c) eqn:Hc; [discriminate|].
    pose proof (IHa e1 (or_introl eq_refl) _ Ea) as H1.
    pose proof (IHa e2 (or_intror (or_introl eq_refl)) _ Eb) as H2.
    pose proof (has_arg_false _ Hc) as Hc'.
    unfold h_conditional.
    destruct (nonempty a && is_zero e2) eqn:C1.
    { intros E; inv_ok. apply andb_prop in C1. destruct C1 as [_ Z]. destruct e2; try discriminate.
      intros i. cbn [terms]. rewrite !in_app_iff, <- (H1 i). cbn [terms In]. split; [auto|].
      intros [H|[H|[]]]; [exfalso; exact (Hc' i H)|exact H]. }
    destruct (nonempty b && is_zero e1) eqn:C2.
    { intros E; inv_ok. apply andb_prop in C2. destruct C2 as [_ Z]. destruct e1; try discriminate.
      intros i. cbn [terms]. rewrite !in_app_iff, <- (H2 i). cbn [terms In]. split; [auto|].
      intros [H|[[]|H]]; [exfalso; exact (Hc' i H)|exact H]. }
    destruct (aeqb a b) eqn:Eab; [|discriminate]. intros E; inv_ok. apply aeqb_eq in Eab. subst b.
    intros i. cbn [terms]. rewrite !in_app_iff, <- (H1 i), <- (H2 i). split; [auto|].
    intros [H|[H|H]]; [exfalso; exact (Hc' i H)|exact H|exact H].
  - (* Restricted *)
    destruct plus; cbn [class_handler apply_handler];
      (destruct (arity num e) as [a|] eqn:Ea; cbn [all_ok]; [|discriminate]; intros E; inv_ok;
       intros i; cbn [terms]; apply (IHa e (or_introl eq_refl)); exact Ea).
  - (* Outer *)
    destruct (arity num e1) as [a|] eqn:Ea; cbn [all_ok]; [|discriminate].
    destruct (arity num e2) as [b|] eqn:Eb; cbn [all_ok]; [|discriminate].
    intros E. apply h_product_ok in E. destruct E as [Hc _].
    pose proof (IHa e1 (or_introl eq_refl) _ Ea) as H1.
    pose proof (IHa e2 (or_intror (or_introl eq_refl)) _ Eb) as H2.
    intros i. cbn [terms]. rewrite in_app_iff, <- (H1 i), <- (H2 i). split.
    + intros [f Hf]. apply Hc in Hf. destruct Hf as [Hf|Hf]; [left; apply In_conj in Hf|right]; eauto.
    + intros [[f Hf]|[f Hf]]; [exists (negb f)|exists f]; apply Hc; [left|right; exact Hf].
      apply In_conj. rewrite negb_involutive. exact Hf.
  - (* Inner *)
    destruct (arity num e1) as [a|] eqn:Ea; cbn [all_ok]; [|discriminate].
    destruct (arity num e2) as [b|] eqn:Eb; cbn [all_ok]; [|discriminate].
    intros E. apply h_product_ok in E. destruct E as [Hc _].
    pose proof (IHa e1 (or_introl eq_refl) _ Ea) as H1.
    pose proof (IHa e2 (or_intror (or_introl eq_refl)) _ Eb) as H2.
    intros i. cbn [terms]. rewrite in_app_iff, <- (H1 i), <- (H2 i). split.
    + intros [f Hf]. apply Hc in Hf. destruct Hf as [Hf|Hf]; [left|right; apply In_conj in Hf]; eauto.
    + intros [[f Hf]|[f Hf]]; [exists f|exists (negb f)]; apply Hc; [left; exact Hf|right].
      apply In_conj. rewrite negb_involutive. exact Hf.
  - (* Dot *)
    destruct (arity num e1) as [a|] eqn:Ea; cbn [all_ok]; [|discriminate].
    destruct (arity num e2) as [b|] eqn:Eb; cbn [all_ok]; [|discriminate].
    intros E. apply h_product_ok in E. destruct E as [Hc _].
    pose proof (IHa e1 (or_introl eq_refl) _ Ea) as H1.
    pose proof (IHa e2 (or_intror (or_introl eq_refl)) _ Eb) as H2.
    intros i. cbn [terms]. rewrite in_app_iff, <- (H1 i), <- (H2 i). split.
    + intros [f Hf]. apply Hc in Hf. destruct Hf; [left|right]; exists f; auto.
    + intros [[f Hf]|[f Hf]]; exists f; apply Hc; auto.
Qed.

End Exact.

(* ---------------------------------------------------------------------------------------------- *)

Lemma no_arg_existsb l : (forall i, ~ In (1, i) l) -> existsb is_argp l = false.
Proof.
  intros H. destruct (existsb is_argp l) eqn:E; [|reflexivity].
  apply existsb_exists in E. destruct E as [[k i] [Hin Hk]]. unfold is_argp in Hk. cbn in Hk.
  apply Nat.eqb_eq in Hk. subst k. exfalso. exact (H i Hin).
Qed.

(* ---------------------------------------------------------------------------------------------- *)
(* soundness                                                                                        *)

Section Linear.
Variable A : ualg.
Add Field AfC14s : (kfield A).
Open Scope K_scope.
Variable num : nat -> nat.
Variables D DX : nat -> A -> A.
Variable ki : A.
Variable cm : bool.          (* complex mode *)
Variable n : nat.            (* the argument number under consideration *)
Variable sc : A.             (* the scalar *)

(* conjugation is an involutive ring morphism (the identity in real mode) *)
Hypothesis conj_add : forall x y : A, kconj (x + y) = kconj x + kconj y.
Hypothesis conj_mul : forall x y : A, kconj (x * y) = kconj x * kconj y.
Hypothesis conj_inv : forall x : A, kconj (kconj x) = x.
Hypothesis real_mode : cm = false -> forall x : A, kconj x = x.
(* derivatives are additive and the scalar is a constant *)
Hypothesis D_add : forall j x y, D j (x + y) = D j x + D j y.
Hypothesis DX_add : forall j x y, DX j (x + y) = DX j x + DX j y.
Hypothesis D_sc : forall j x, D j (sc * x) = sc * D j x.
Hypothesis D_scc : forall j x, D j (kconj sc * x) = kconj sc * D j x.
Hypothesis DX_sc : forall j x, DX j (sc * x) = sc * DX j x.
Hypothesis DX_scc : forall j x, DX j (kconj sc * x) = kconj sc * DX j x.
(* conditions select pointwise *)
Hypothesis cond_lin : forall (b : B A) (s x x' y y' : A),
  kcond b (s * x + y) (s * x' + y') = s * kcond b x x' + kcond b y y'.

(* three environments that differ only in the arguments of number n, where z = sc*x + y *)
Variables envx envy envz : side -> nat -> nat -> list nat -> A.
Hypothesis off_x : forall s k id c, (k <> 1 \/ num id <> n) -> envz s k id c = envx s k id c.
Hypothesis off_y : forall s k id c, (k <> 1 \/ num id <> n) -> envz s k id c = envy s k id c.
Hypothesis on_n : forall s id c, num id = n -> envz s 1 id c = sc * envx s 1 id c + envy s 1 id c.

Notation dx := (@den A envx D DX ki).
Notation dy := (@den A envy D DX ki).
Notation dz := (@den A envz D DX ki).

Definition eff (f : bool) : A := if f then @kconj A sc else sc.
Definition fam (a : ar) : Prop := exists i f, In (i, f) a /\ num i = n.
Definition uni (a : ar) (S : A) : Prop := forall i f, In (i, f) a -> num i = n -> eff f = S.
Definition lin (e : expr) (S : A) : Prop :=
  forall s rho c, dz s rho e c = S * dx s rho e c + dy s rho e c.
Definition indep (e : expr) : Prop :=
  forall s rho c, dz s rho e c = dx s rho e c /\ dz s rho e c = dy s rho e c.

Lemma eff_negb f : eff (negb f) = kconj (eff f).
Proof. destruct f; cbn; [rewrite conj_inv|]; reflexivity. Qed.

Lemma fam_conj a : fam (a_conj a) <-> fam a.
Proof.
  split; intros [i [f [H E]]].
  - apply In_conj in H. exists i, (negb f). auto.
  - exists i, (negb f). split; [apply In_conj; rewrite negb_involutive; exact H|exact E].
Qed.

Lemma uni_conj a S : uni (a_conj a) S -> uni a (kconj S).
Proof.
  intros U i f H E. assert (H' : In (i, negb f) (a_conj a)) by (apply In_conj; rewrite negb_involutive; exact H).
  specialize (U _ _ H' E). rewrite eff_negb in U. rewrite <- U, conj_inv. reflexivity.
Qed.

Lemma uni_sub a b S : (forall p, In p a -> In p b) -> uni b S -> uni a S.
Proof. intros H U i f Hin. apply U, H, Hin. Qed.

Lemma S_cases a S : fam a -> uni a S -> S = sc \/ S = kconj sc.
Proof. intros [i [f [H E]]] U. specialize (U _ _ H E). destruct f; cbn in U; auto. Qed.

Lemma D_lin a S j x y : fam a -> uni a S -> D j (S * x + y) = S * D j x + D j y.
Proof. intros F U. rewrite D_add. destruct (S_cases _ _ F U) as [->| ->]; [rewrite D_sc|rewrite D_scc]; reflexivity. Qed.
Lemma DX_lin a S j x y : fam a -> uni a S -> DX j (S * x + y) = S * DX j x + DX j y.
Proof. intros F U. rewrite DX_add. destruct (S_cases _ _ F U) as [->| ->]; [rewrite DX_sc|rewrite DX_scc]; reflexivity. Qed.

Lemma conj_lin (S x y : A) : kconj (kconj S * x + y) = S * kconj x + kconj y.
Proof. rewrite conj_add, conj_mul, conj_inv. reflexivity. Qed.
Lemma conj_lin' (S x y : A) : kconj (S * x + y) = kconj S * kconj x + kconj y.
Proof. rewrite conj_add, conj_mul. reflexivity. Qed.

Lemma div_lin (S x y d : A) : (S * x + y) / d = S * (x / d) + y / d.
Proof. rewrite !(Fdiv_def (kfield A)). ring. Qed.

Lemma ksum_lin m S (f g h : nat -> A) :
  (forall k, f k = S * g k + h k) -> ksum m f = S * ksum m g + ksum m h.
Proof. intros H. induction m as [|m IH]; cbn [ksum]; [ring|]. rewrite IH, H. ring. Qed.

Lemma ksum_shape_lin sh S : forall (f g h : list nat -> A),
  (forall c, f c = S * g c + h c) -> ksum_shape sh f = S * ksum_shape sh g + ksum_shape sh h.
Proof.
  induction sh as [|d sh IH]; intros f g h H; cbn [ksum_shape]; [apply H|].
  apply ksum_lin. intros k. apply IH. intros c. apply H.
Qed.

Lemma indep_of_nofam e C : arity num e = OK C -> ~ fam C -> indep e.
Proof.
  intros E NF. pose proof (arity_exact num e C E) as X.
  assert (G : forall env', (forall s k id c, (k <> 1 \/ num id <> n) -> envz s k id c = env' s k id c) ->
              forall s rho c, dz s rho e c = @den A env' D DX ki s rho e c).
  { intros env' Hoff. apply den_ext. intros k id Hin s c. apply Hoff.
    destruct (Nat.eq_dec k 1) as [->|Hk]; [|left; exact Hk]. right.
    apply X in Hin. destruct Hin as [f Hf]. intros En. apply NF. exists id, f. auto. }
  intros s rho c. split; [apply G, off_x|apply G, off_y].
Qed.

Lemma prod_split a b C S :
  h_product num a b = OK C -> fam C -> uni C S ->
  (fam a /\ ~ fam b /\ uni a S) \/ (~ fam a /\ fam b /\ uni b S).
Proof.
  intros E F U. apply h_product_ok in E. destruct E as [Hc Hd].
  destruct F as [i [f [Hin En]]]. apply Hc in Hin. destruct Hin as [Hin|Hin]; [left|right].
  - split; [exists i, f; auto|]. split.
    + intros [j [g [Hj Ej]]]. apply (Hd _ _ Hin Hj). cbn. congruence.
    + eapply uni_sub; [|exact U]. intros p Hp. apply Hc. auto.
  - split; [|split].
    + intros [j [g [Hj Ej]]]. apply (Hd _ _ Hj Hin). cbn. congruence.
    + exists i, f; auto.
    + eapply uni_sub; [|exact U]. intros p Hp. apply Hc. auto.
Qed.

Lemma nth_den_lin (es : list expr) S s rho :
  (forall x, In x es -> forall c', dz s rho x c' = S * dx s rho x c' + dy s rho x c') ->
  forall k c',
  (fix nth_den (l : list expr) (m : nat) {struct l} : A :=
     match l, m with [], _ => k0 | e0 :: _, O => dz s rho e0 c' | _ :: t, S m' => nth_den t m' end) es k =
  S *
  (fix nth_den (l : list expr) (m : nat) {struct l} : A :=
     match l, m with [], _ => k0 | e0 :: _, O => dx s rho e0 c' | _ :: t, S m' => nth_den t m' end) es k +
  (fix nth_den (l : list expr) (m : nat) {struct l} : A :=
     match l, m with [], _ => k0 | e0 :: _, O => dy s rho e0 c' | _ :: t, S m' => nth_den t m' end) es k.
Proof.
  induction es as [|e t IH]; intros H k c'; [destruct k; ring|].
  destruct k as [|k]; [apply H; cbn; auto|]. apply IH. intros x Hx. apply H. cbn; auto.
Qed.

Lemma denc_indep c : has_arg_c c = false -> forall s rho,
  denc envz D DX ki s rho c = denc envx D DX ki s rho c /\ denc envz D DX ki s rho c = denc envy D DX ki s rho c.
Proof.
  intros H. pose proof (has_arg_false _ H) as N.
  assert (G : forall env', (forall s k id c, (k <> 1 \/ num id <> n) -> envz s k id c = env' s k id c) ->
              forall s rho, denc envz D DX ki s rho c = denc env' D DX ki s rho c).
  { intros env' Hoff. apply denc_ext. intros x Hx. apply den_ext. intros k id Hin s cc. apply Hoff. left.
    intros ->. apply (N id). apply cterms_in. exists x. auto. }
  intros s rho. split; [apply G, off_x|apply G, off_y].
Qed.

Ltac inv_ok := match goal with H : OK _ = OK _ |- _ => inversion H; subst; clear H end.

Definition P (e : expr) : Prop :=
  forall C, arity num e = OK C -> fam C -> forall S, uni C S -> lin e S.

Theorem arity_linear : forall e, P e.
Proof.
  apply (expr_subs_ind P). unfold P. intros e IH C. rewrite arity_eq.
  assert (IHa : forall x, In x (asubs e) -> forall B, arity num x = OK B -> fam B ->
                forall S, uni B S -> lin x S).
  { intros x Hx B EB. apply (IH x (asubs_subs _ _ Hx) B EB). }
  clear IH.
  destruct e; cbn [cls_of class_handler apply_handler asubs subs map];
    (* terminals *)
    try (intros E; inv_ok; intros [i0 [f0 [[] _]]]; fail);
    (* nonlinear operators *)
    try (match goal with |- (if has_arg ?x then _ else _) = _ -> _ =>
           destruct (has_arg x); [discriminate|]; intros E; inv_ok; intros [i0 [f0 [[] _]]] end; fail).
  - (* Term *)
    destruct k as [|[|[|k]]]; cbn [class_handler apply_handler]; intros E; inv_ok;
      try (intros [i0 [f0 [[] _]]]; fail).
    intros [i0 [f0 [[H|[]] En]]] S U s rho c. inversion H; subst. cbn [den].
    rewrite <- (U i0 false (or_introl eq_refl) En). cbn [eff]. apply on_n. exact En.
  - (* Sum *)
    destruct (arity num e1) as [a|] eqn:Ea; cbn [all_ok]; [|discriminate].
    destruct (arity num e2) as [b|] eqn:Eb; cbn [all_ok]; [|discriminate].
    unfold h_sum. destruct (aeqb a b) eqn:Eab; [|discriminate]. intros E; inv_ok.
    apply aeqb_eq in Eab. subst b. intros F S U s rho c. cbn [den].
    rewrite (IHa e1 (or_introl eq_refl) _ Ea F S U), (IHa e2 (or_intror (or_introl eq_refl)) _ Eb F S U). ring.
  - (* Product *)
    destruct (arity num e1) as [a|] eqn:Ea; cbn [all_ok]; [|discriminate].
    destruct (arity num e2) as [b|] eqn:Eb; cbn [all_ok]; [|discriminate].
    intros E F S U s rho c. cbn [den].
    destruct (prod_split _ _ _ _ E F U) as [[Fa [Fb Ua]]|[Fa [Fb Ub]]].
    + rewrite (IHa e1 (or_introl eq_refl) _ Ea Fa S Ua).
      destruct (indep_of_nofam _ _ Eb Fb s rho []) as [<- <-]. ring.
    + rewrite (IHa e2 (or_intror (or_introl eq_refl)) _ Eb Fb S Ub).
      destruct (indep_of_nofam _ _ Ea Fa s rho []) as [<- <-]. ring.
  - (* Division *)
    destruct (arity num e1) as [a|] eqn:Ea; cbn [all_ok]; [|discriminate].
    destruct (arity num e2) as [b|] eqn:Eb; cbn [all_ok]; [|discriminate].
    unfold h_division. destruct b; [|discriminate]. intros E; inv_ok. intros F S U s rho c. cbn [den].
    rewrite (IHa e1 (or_introl eq_refl) _ Ea F S U).
    assert (NF : ~ fam []) by (intros [i0 [f0 [[] _]]]).
    destruct (indep_of_nofam _ _ Eb NF s rho []) as [<- <-]. apply div_lin.
  - (* Conj *)
    destruct (arity num e) as [a|] eqn:Ea; cbn [all_ok]; [|discriminate]. intros E; inv_ok.
    intros F S U s rho c. cbn [den].
    rewrite (IHa e (or_introl eq_refl) _ Ea (proj1 (fam_conj a) F) _ (uni_conj _ _ U)). apply conj_lin.
  - (* Indexed *)
    destruct (arity num e) as [a|] eqn:Ea; cbn [all_ok]; [|discriminate]. intros E; inv_ok.
    intros F S U s rho c. cbn [den]. apply (IHa e (or_introl eq_refl) _ Ea F S U).
  - (* IndexSum *)
    destruct (arity num e) as [a|] eqn:Ea; cbn [all_ok]; [|discriminate]. intros E; inv_ok.
    intros F S U s rho c. cbn [den]. apply ksum_lin. intros k. apply (IHa e (or_introl eq_refl) _ Ea F S U).
  - (* ComponentTensor *)
    destruct (arity num e) as [a|] eqn:Ea; cbn [all_ok]; [|discriminate]. intros E; inv_ok.
    intros F S U s rho c. cbn [den]. apply (IHa e (or_introl eq_refl) _ Ea F S U).
  - (* ListTensor *)
    destruct (all_ok (map (arity num) es)) as [l|] eqn:El; [|discriminate].
    intros E F S U s rho c.
    pose proof (arity_exact num (ListTensor es) C) as X. rewrite arity_eq in X.
    cbn [cls_of class_handler apply_handler asubs subs] in X. rewrite El in X. specialize (X E).
    apply h_list_tensor_ok in E. destruct E as [Hc [Hn Hz0]].
    apply all_ok_spec in El. apply map_arity_ok in El. destruct El as [Hlen Hnth].
    assert (HA : has_arg (ListTensor es) = true).
    { destruct F as [i0 [f0 [Hin _]]]. unfold has_arg. apply existsb_exists. exists (1, i0).
      split; [apply X; eauto|reflexivity]. }
    assert (Cne : C <> []) by (destruct F as [i0 [f0 [Hin _]]]; intros ->; destruct Hin).
    assert (El : forall x, In x es -> forall c', dz s rho x c' = S * dx s rho x c' + dy s rho x c').
    { intros x Hx c'. pose proof Hx as Hx0. apply In_nth_error in Hx. destruct Hx as [k Hk].
      assert (Ha : exists a, nth_error l k = Some a).
      { destruct (nth_error l k) eqn:Ex; [eauto|]. apply nth_error_None in Ex.
        assert (k < length es) by (apply nth_error_Some; congruence). lia. }
      destruct Ha as [a Ha]. pose proof (Hnth _ _ _ Hk Ha) as Ex. pose proof (nth_error_In _ _ Ha) as Hal.
      destruct a as [|p q].
      - (* argument-free component: a Zero node, or the checker would have rejected *)
        assert (Hz : is_zero x = true) by (apply (Hz0 Cne k x Hk Ha)).
        destruct x; try discriminate. cbn [den]. ring.
      - (* a component with arguments has the same argument numbers as the one carrying family n *)
        destruct F as [i0 [f0 [Hin En]]]. apply Hc in Hin. destruct Hin as [b [Hb Hib]].
        assert (Fb : In n (nums num b)) by (apply In_nums; exists (i0, f0); auto).
        assert (Eq : nums num (p :: q) = nums num b).
        { apply Hn; auto; [discriminate|intros ->; destruct Hib]. }
        rewrite <- Eq in Fb. apply In_nums in Fb. destruct Fb as [[i1 f1] [H1 E1]].
        apply (IHa x Hx0 _ Ex); [exists i1, f1; auto|].
        eapply uni_sub; [|exact U]. intros p0 Hp0. apply Hc. exists (p :: q). auto. }
    cbn [den]. destruct c as [|k c']; [ring|]. apply nth_den_lin. exact El.
  - (* Conditional *)
    destruct (arity num e1) as [a|] eqn:Ea; cbn [all_ok]; [|discriminate].
    destruct (arity num e2) as [b|] eqn:Eb; cbn [all_ok]; [|discriminate].
    destruct (has_arg_c c) eqn:Hc; [discriminate|].
    unfold h_conditional. intros E F S U s rho cc.
    change (dz s rho (Conditional c e1 e2) cc) with (kcond (denc envz D DX ki s rho c) (dz s rho e1 cc) (dz s rho e2 cc)).
    change (dx s rho (Conditional c e1 e2) cc) with (kcond (denc envx D DX ki s rho c) (dx s rho e1 cc) (dx s rho e2 cc)).
    change (dy s rho (Conditional c e1 e2) cc) with (kcond (denc envy D DX ki s rho c) (dy s rho e1 cc) (dy s rho e2 cc)).
    destruct (denc_indep c Hc s rho) as [<- <-].
    destruct (nonempty a && is_zero e2) eqn:C1.
    { inv_ok. apply andb_prop in C1. destruct C1 as [_ Z]. destruct e2; try discriminate.
      rewrite (IHa e1 (or_introl eq_refl) _ Ea F S U). cbn [den].
      replace (k0 : A) with (S * k0 + k0) at 1 by ring. apply cond_lin. }
    destruct (nonempty b && is_zero e1) eqn:C2.
    { inv_ok. apply andb_prop in C2. destruct C2 as [_ Z]. destruct e1; try discriminate.
      rewrite (IHa e2 (or_intror (or_introl eq_refl)) _ Eb F S U). cbn [den].
      replace (k0 : A) with (S * k0 + k0) at 1 by ring. apply cond_lin. }
    destruct (aeqb a b) eqn:Eab; [|discriminate]. inv_ok. apply aeqb_eq in Eab. subst b.
    rewrite (IHa e1 (or_introl eq_refl) _ Ea F S U), (IHa e2 (or_intror (or_introl eq_refl)) _ Eb F S U).
    apply cond_lin.
  - (* Vari *)
    destruct (arity num e) as [a|] eqn:Ea; cbn [all_ok]; [|discriminate]. intros E; inv_ok.
    intros F S U s rho c. cbn [den]. apply (IHa e (or_introl eq_refl) _ Ea F S U).
  - (* Restricted *)
    destruct plus; cbn [class_handler apply_handler];
      (destruct (arity num e) as [a|] eqn:Ea; cbn [all_ok]; [|discriminate]; intros E; inv_ok;
       intros F S U s rho c; cbn [den]; apply (IHa e (or_introl eq_refl) _ Ea F S U)).
  - (* Grad *)
    destruct (arity num e) as [a|] eqn:Ea; cbn [all_ok]; [|discriminate]. intros E; inv_ok.
    intros F S U s rho c. cbn [den]. destruct (split_last c) as [c' j].
    rewrite (IHa e (or_introl eq_refl) _ Ea F S U). apply (D_lin _ _ _ _ _ F U).
  - (* RefGrad *)
    destruct (arity num e) as [a|] eqn:Ea; cbn [all_ok]; [|discriminate]. intros E; inv_ok.
    intros F S U s rho c. cbn [den]. destruct (split_last c) as [c' j].
    rewrite (IHa e (or_introl eq_refl) _ Ea F S U). apply (DX_lin _ _ _ _ _ F U).
  - (* RefValue *)
    destruct (arity num e) as [a|] eqn:Ea; cbn [all_ok]; [|discriminate]. intros E; inv_ok.
    intros F S U s rho c. cbn [den]. apply (IHa e (or_introl eq_refl) _ Ea F S U).
  - (* Outer *)
    destruct (arity num e1) as [a|] eqn:Ea; cbn [all_ok]; [|discriminate].
    destruct (arity num e2) as [b|] eqn:Eb; cbn [all_ok]; [|discriminate].
    intros E F S U s rho c. cbn [den].
    destruct (prod_split _ _ _ _ E F U) as [[Fa [Fb Ua]]|[Fa [Fb Ub]]].
    + rewrite (IHa e1 (or_introl eq_refl) _ Ea (proj1 (fam_conj a) Fa) _ (uni_conj _ _ Ua)).
      destruct (indep_of_nofam _ _ Eb Fb s rho (skipn (length (shape e1)) c)) as [<- <-].
      rewrite conj_lin. ring.
    + rewrite (IHa e2 (or_intror (or_introl eq_refl)) _ Eb Fb S Ub).
      assert (Fa' : ~ fam a) by (intros H; apply Fa, fam_conj, H).
      destruct (indep_of_nofam _ _ Ea Fa' s rho (firstn (length (shape e1)) c)) as [<- <-]. ring.
  - (* Inner *)
    destruct (arity num e1) as [a|] eqn:Ea; cbn [all_ok]; [|discriminate].
    destruct (arity num e2) as [b|] eqn:Eb; cbn [all_ok]; [|discriminate].
    intros E F S U s rho c. cbn [den]. apply ksum_shape_lin. intros I.
    destruct (prod_split _ _ _ _ E F U) as [[Fa [Fb Ua]]|[Fa [Fb Ub]]].
    + rewrite (IHa e1 (or_introl eq_refl) _ Ea Fa S Ua).
      assert (Fb' : ~ fam b) by (intros H; apply Fb, fam_conj, H).
      destruct (indep_of_nofam _ _ Eb Fb' s rho I) as [<- <-]. ring.
    + rewrite (IHa e2 (or_intror (or_introl eq_refl)) _ Eb (proj1 (fam_conj b) Fb) _ (uni_conj _ _ Ub)).
      destruct (indep_of_nofam _ _ Ea Fa s rho I) as [<- <-]. rewrite conj_lin. ring.
  - (* Dot: a product without conjugation *)
    destruct (arity num e1) as [a|] eqn:Ea; cbn [all_ok]; [|discriminate].
    destruct (arity num e2) as [b|] eqn:Eb; cbn [all_ok]; [|discriminate].
    intros E F S U s rho c. cbn [den]. apply ksum_lin. intros k.
    destruct (prod_split _ _ _ _ E F U) as [[Fa [Fb Ua]]|[Fa [Fb Ub]]].
    + rewrite (IHa e1 (or_introl eq_refl) _ Ea Fa S Ua).
      destruct (indep_of_nofam _ _ Eb Fb s rho (k :: skipn (length (shape e1) - 1) c)) as [<- <-]. ring.
    + rewrite (IHa e2 (or_intror (or_introl eq_refl)) _ Eb Fb S Ub).
      destruct (indep_of_nofam _ _ Ea Fa s rho (firstn (length (shape e1) - 1) c ++ [k])) as [<- <-]. ring.
Qed.

End Linear.

(* ---------------------------------------------------------------------------------------------- *)
(* The theorems about check_integrand_arity                                                         *)

Section Main.
Variable A : ualg.
Add Field AfC14t : (kfield A).
Open Scope K_scope.
Variable num : nat -> nat.
Variables D DX : nat -> A -> A.
Variable ki : A.

(* C14_sound: if check_integrand_arity accepts e for the declared arguments
   [args] in mode [cm], then for every argument number n among them, and any environments that differ
   only in the arguments of number n with z = sc*x + y there,
        den e [z] = s * den e [x] + den e [y],   s = conj sc for the test function (n = 0) in complex
   mode, s = sc otherwise. *)
Theorem C14_sound :
  forall (cm : bool) (n : nat) (sc : A),
  (forall x y : A, kconj (x + y) = kconj x + kconj y) ->
  (forall x y : A, kconj (x * y) = kconj x * kconj y) ->
  (forall x : A, kconj (kconj x) = x) ->
  (cm = false -> forall x : A, kconj x = x) ->
  (forall j x y, D j (x + y) = D j x + D j y) ->
  (forall j x y, DX j (x + y) = DX j x + DX j y) ->
  (forall j x, D j (sc * x) = sc * D j x) ->
  (forall j x, D j (kconj sc * x) = kconj sc * D j x) ->
  (forall j x, DX j (sc * x) = sc * DX j x) ->
  (forall j x, DX j (kconj sc * x) = kconj sc * DX j x) ->
  (forall (b : B A) (s x x' y y' : A), kcond b (s * x + y) (s * x' + y') = s * kcond b x x' + kcond b y y') ->
  forall envx envy envz : side -> nat -> nat -> list nat -> A,
  (forall s k id c, (k <> 1 \/ num id <> n) -> envz s k id c = envx s k id c) ->
  (forall s k id c, (k <> 1 \/ num id <> n) -> envz s k id c = envy s k id c) ->
  (forall s id c, num id = n -> envz s 1 id c = sc * envx s 1 id c + envy s 1 id c) ->
  forall e args,
  check num e args cm = true -> In n (map num args) ->
  forall s rho c,
    den envz D DX ki s rho e c =
    (if cm && Nat.eqb n 0 then kconj sc else sc) * den envx D DX ki s rho e c + den envy D DX ki s rho e c.
Proof.
  intros cm n sc H1 H2 H3 H4 H5 H6 H7 H8 H9 H10 H11 envx envy envz Ox Oy On e args Hc Hn.
  unfold check in Hc. destruct (arity num e) as [a|] eqn:Ea; [|discriminate].
  apply andb_prop in Hc. destruct Hc as [Hargs Hcj]. apply nat_list_eqb_eq in Hargs. subst args.
  assert (F : fam num n a).
  { rewrite map_map in Hn. apply in_map_iff in Hn. destruct Hn as [[i f] [E Hin]]. exists i, f. auto. }
  apply (arity_linear A num D DX ki n sc H1 H2 H3 H5 H6 H7 H8 H9 H10 H11 envx envy envz Ox Oy On e a Ea F).
  intros i f Hin En. unfold eff. destruct cm; cbn [andb].
  - rewrite forallb_forall in Hcj. specialize (Hcj _ Hin). unfold conj_ok in Hcj. cbn [fst snd] in Hcj.
    rewrite En in Hcj. destruct (Nat.eqb n 0); [rewrite Hcj|apply negb_true_iff in Hcj; rewrite Hcj]; reflexivity.
  - destruct f; [apply H4|]; reflexivity.
Qed.

(* ... and the integrand contains exactly the declared arguments; it does not depend on any other *)
Theorem C14_args_exact :
  forall e args cm, check num e args cm = true ->
  (forall i, In i args <-> In (1, i) (terms e)) /\
  (forall env env' : side -> nat -> nat -> list nat -> A,
     (forall s k id c, (k <> 1 \/ In id args) -> env s k id c = env' s k id c) ->
     forall s rho c, den env D DX ki s rho e c = den env' D DX ki s rho e c).
Proof.
  intros e args cm Hc. unfold check in Hc. destruct (arity num e) as [a|] eqn:Ea; [|discriminate].
  apply andb_prop in Hc. destruct Hc as [Hargs _]. apply nat_list_eqb_eq in Hargs. subst args.
  pose proof (arity_exact num e a Ea) as X.
  assert (Y : forall i, In i (map fst a) <-> In (1, i) (terms e)).
  { intros i. rewrite <- (X i). rewrite in_map_iff. split.
    - intros [[j f] [E Hin]]. cbn in E. subst j. eauto.
    - intros [f Hin]. exists (i, f). auto. }
  split; [exact Y|].
  intros env env' Hag. apply den_ext. intros k id Hin s c. apply Hag.
  destruct (Nat.eq_dec k 1) as [->|Hk]; [right; apply Y; exact Hin|left; exact Hk].
Qed.

End Main.

(* ---------------------------------------------------------------------------------------------- *)
(* C14_rejects: the affine and nonlinear shapes named in the property are rejected                  *)

Section Rejects.
Variable num : nat -> nat.

Lemma overlap_self a : a <> [] -> overlap num a a = true.
Proof.
  destruct a as [|x t]; [congruence|]. intros _. unfold overlap. cbn [existsb].
  rewrite Nat.eqb_refl. reflexivity.
Qed.

(* a + c : a depends on arguments, c does not *)
Theorem C14_rejects_affine a c Aa args cm :
  arity num a = OK Aa -> Aa <> [] -> arity num c = OK [] -> check num (Sum a c) args cm = false.
Proof.
  intros Ea Hne Ec. unfold check. rewrite arity_eq. cbn [cls_of class_handler apply_handler asubs subs map].
  rewrite Ea, Ec. cbn [all_ok]. unfold h_sum. destruct Aa; [congruence|reflexivity].
Qed.
Theorem C14_rejects_affine' a c Aa args cm :
  arity num a = OK Aa -> Aa <> [] -> arity num c = OK [] -> check num (Sum c a) args cm = false.
Proof.
  intros Ea Hne Ec. unfold check. rewrite arity_eq. cbn [cls_of class_handler apply_handler asubs subs map].
  rewrite Ea, Ec. cbn [all_ok]. unfold h_sum. destruct Aa; [congruence|reflexivity].
Qed.
(* a * a *)
Theorem C14_rejects_square a Aa args cm :
  arity num a = OK Aa -> Aa <> [] -> check num (Product a a) args cm = false.
Proof.
  intros Ea Hne. unfold check. rewrite arity_eq. cbn [cls_of class_handler apply_handler asubs subs map].
  rewrite Ea. cbn [all_ok]. unfold h_product. rewrite (overlap_self _ Hne). destruct Aa; [congruence|reflexivity].
Qed.
(* f(a) for every math function, and |a|, a^b, real, imag *)
Theorem C14_rejects_nonlinear a args cm (f : mathfn) :
  has_arg a = true ->
  check num (Math f a) args cm = false /\ check num (Abs a) args cm = false /\
  check num (Real a) args cm = false /\ check num (Imag a) args cm = false /\
  (forall b, check num (Power a b) args cm = false).
Proof.
  intros H. unfold check. rewrite !arity_eq. cbn [cls_of class_handler apply_handler].
  unfold has_arg in *. cbn [terms]. rewrite H. repeat split. intros b. rewrite arity_eq.
  cbn [cls_of class_handler apply_handler]. unfold has_arg. cbn [terms]. rewrite existsb_app, H. reflexivity.
Qed.
(* c / a *)
Theorem C14_rejects_denominator c a Aa args cm :
  arity num a = OK Aa -> Aa <> [] -> check num (Division c a) args cm = false.
Proof.
  intros Ea Hne. unfold check. rewrite arity_eq. cbn [cls_of class_handler apply_handler asubs subs map].
  rewrite Ea. destruct (arity num c); cbn [all_ok]; [|reflexivity]. unfold h_division.
  destruct Aa; [congruence|reflexivity].
Qed.

End Rejects.

(* ---------------------------------------------------------------------------------------------- *)
(* The former counterexamples: not (anti)linear, and now rejected by the (repaired) checker          *)

Definition num100 (i : nat) : nat := Nat.div i 100.

Section Refute.
Variable A : ualg.
Add Field AfC14r : (kfield A).
Open Scope K_scope.
Variables D DX : nat -> A -> A.
Variable ki : A.

(* inner(as_vector([v, 1]), f) after algebra lowering:  sum_i [v, 1][i] * f[i]  -- affine in v (in EVERY UFL
   algebra), hence rejected. *)
Definition lt_witness : expr :=
  IndexSum (Product (Indexed (ListTensor [Term 1 0 []; IntV 1]) [Free 0])
                    (Indexed (Term 0 0 [2]) [Free 0])) 0 2.

Theorem C14_list_tensor_constant_rejected :
  check num100 lt_witness [0] false = false /\
  exists envx envy envz : side -> nat -> nat -> list nat -> A,
    (forall s k id c, (k <> 1 \/ num100 id <> 0) -> envz s k id c = envx s k id c) /\
    (forall s k id c, (k <> 1 \/ num100 id <> 0) -> envz s k id c = envy s k id c) /\
    (forall s id c, num100 id = 0 -> envz s 1 id c = k1 * envx s 1 id c + envy s 1 id c) /\
    den envz D DX ki None (fun _ => 0) lt_witness []
    <> k1 * den envx D DX ki None (fun _ => 0) lt_witness [] + den envy D DX ki None (fun _ => 0) lt_witness [].
Proof.
  split; [vm_compute; reflexivity|].
  pose (env := fun (s : side) (k id : nat) (c : list nat) => if Nat.eqb k 1 then (k0 : A) else k1).
  exists env, env, env. split; [reflexivity|]. split; [reflexivity|]. split.
  - intros s id c _. unfold env. cbn. ring.
  - assert (E : den env D DX ki None (fun _ => 0) lt_witness [] = (k1 : A)).
    { cbv -[K k0 k1 kadd kmul ksub kopp kdiv kinv]. ring. }
    rewrite E. intros H. apply (F_1_neq_0 (kfield A)).
    apply (self_double A). rewrite H at 1. ring.
Qed.

(* dot(u, v) in complex mode: linear, not antilinear, in v (in every UFL algebra with a
   scalar a such that conj a <> a), hence rejected; dot(u, conj(v)) is accepted. *)
Definition dot_witness : expr := Dot (Term 1 100 [2]) (Term 1 0 [2]).

Theorem C14_dot_not_conjugating (a : A) :
  kconj a <> a ->
  check num100 dot_witness [0; 100] true = false /\
  check num100 (Dot (Term 1 100 [2]) (Conj (Term 1 0 [2]))) [0; 100] true = true /\
  exists envx envy envz : side -> nat -> nat -> list nat -> A,
    (forall s k id c, (k <> 1 \/ num100 id <> 0) -> envz s k id c = envx s k id c) /\
    (forall s k id c, (k <> 1 \/ num100 id <> 0) -> envz s k id c = envy s k id c) /\
    (forall s id c, num100 id = 0 -> envz s 1 id c = a * envx s 1 id c + envy s 1 id c) /\
    den envz D DX ki None (fun _ => 0) dot_witness []
    <> kconj a * den envx D DX ki None (fun _ => 0) dot_witness [] + den envy D DX ki None (fun _ => 0) dot_witness [].
Proof.
  intros Ha. split; [vm_compute; reflexivity|]. split; [vm_compute; reflexivity|].
  (* every terminal has the value (1, 0), except the test function: x = (1, 0), y = 0, z = a*x + y *)
  pose (u := fun c : list nat => match c with [0] => (k1 : A) | _ => k0 end).
  pose (isv := fun k id : nat => Nat.eqb k 1 && Nat.eqb (num100 id) 0).
  pose (envx := fun (s : side) (k id : nat) (c : list nat) => u c).
  pose (envy := fun (s : side) (k id : nat) (c : list nat) => if isv k id then (k0 : A) else u c).
  pose (envz := fun (s : side) (k id : nat) (c : list nat) => if isv k id then a * u c + k0 else u c).
  exists envx, envy, envz.
  assert (N : forall k id, (k <> 1 \/ num100 id <> 0) -> isv k id = false).
  { intros k id [H|H]; unfold isv.
    - apply Nat.eqb_neq in H. rewrite H. reflexivity.
    - apply Nat.eqb_neq in H. rewrite H. apply andb_false_r. }
  split; [|split; [|split]].
  - intros s k id c H. unfold envz, envx. rewrite (N _ _ H). reflexivity.
  - intros s k id c H. unfold envz, envy. rewrite (N _ _ H). reflexivity.
  - intros s id c H. unfold envz, envx, envy, isv. rewrite H. cbn. reflexivity.
  - assert (Ez : den envz D DX ki None (fun _ => 0) dot_witness [] = a).
    { cbv -[K k0 k1 kadd kmul ksub kopp kdiv kinv kconj]. ring. }
    assert (Ex : den envx D DX ki None (fun _ => 0) dot_witness [] = k1).
    { cbv -[K k0 k1 kadd kmul ksub kopp kdiv kinv kconj]. ring. }
    assert (Ey : den envy D DX ki None (fun _ => 0) dot_witness [] = k0).
    { cbv -[K k0 k1 kadd kmul ksub kopp kdiv kinv kconj]. ring. }
    rewrite Ez, Ex, Ey. intros H. apply Ha. transitivity (kconj a * k1 + k0); [ring|symmetry; exact H].
Qed.

End Refute.

Print Assumptions arity_exact.
Print Assumptions arity_linear.
Print Assumptions C14_sound.
Print Assumptions C14_args_exact.
Print Assumptions C14_rejects_affine.
Print Assumptions C14_rejects_square.
Print Assumptions C14_rejects_nonlinear.
Print Assumptions C14_rejects_denominator.
Print Assumptions C14_list_tensor_constant_rejected.
Print Assumptions C14_dot_not_conjugating.
