(* C13 - executable instance of the expr_equals model, used by the generated correspondence cases
   (coq/Gen/C13_cases_*.v): the model's verdict on a serialised pair of real expressions must equal
   the verdict of the implementation's ==.  The hash is the CONSTANT function, so the hash cut-off of
   expr_equals never fires and the verdict is computed by the stack loop; the identity oracles are run
   both as "never identical" and as "identical whenever structurally identical" (C13_expr_equals_spec
   holds for every sound oracle, so both must give the implementation's answer). *)
From Coq Require Import List Bool Arith.
Import ListNotations.
Require Import UFLV.Props.C13_equals.

Fixpoint tree_eqb (a b : tree) : bool :=
  match a, b with
  | Node ca pa oa, Node cb pb ob =>
      (ca =? cb) && (pa =? pb) &&
      (fix go (l m : list tree) : bool :=
         match l, m with
         | [], [] => true
         | x :: l', y :: m' => tree_eqb x y && go l' m'
         | _, _ => false
         end) oa ob
  end.

Definition ops_eqb (a b : tree) : bool :=
  (fix go (l m : list tree) : bool :=
     match l, m with
     | [], [] => true
     | x :: l', y :: m' => tree_eqb x y && go l' m'
     | _, _ => false
     end) (ops a) (ops b).

Definition is_term_of (terms : list nat) (c : nat) : bool := existsb (Nat.eqb c) terms.

Definition run0 (terms : list nat) (a b : tree) : bool :=
  py_eq (is_term_of terms) Nat.eqb nat Nat.eqb (fun _ _ => 0) (fun _ _ => 0)
        (fun _ _ => false) (fun _ _ => false) a b.

Definition run1 (terms : list nat) (a b : tree) : bool :=
  py_eq (is_term_of terms) Nat.eqb nat Nat.eqb (fun _ _ => 0) (fun _ _ => 0) tree_eqb ops_eqb a b.

Definition spec_eq (terms : list nat) (a b : tree) : bool := seq (is_term_of terms) Nat.eqb a b.

Definition verdicts terms a b := (run0 terms a b, run1 terms a b, spec_eq terms a b).

(* the oracles of run1 are sound, so C13_py_eq_spec applies to it *)
Lemma tree_eqb_ok : forall a b, tree_eqb a b = true -> a = b.
Proof.
  apply (tree_ind' (fun a => forall b, tree_eqb a b = true -> a = b)).
  intros c p o F [cb pb ob]. simpl. intro E.
  apply andb_prop in E as [E E3]. apply andb_prop in E as [E1 E2].
  apply Nat.eqb_eq in E1, E2. subst. f_equal.
  revert ob E3. induction F; destruct ob; simpl; auto; try discriminate.
  intro E. apply andb_prop in E as [E4 E5]. f_equal; auto.
Qed.

Lemma ops_eqb_ok : forall a b, ops_eqb a b = true -> ops a = ops b.
Proof.
  intros [ca pa oa] [cb pb ob]. unfold ops_eqb. simpl. revert ob.
  induction oa; destruct ob; simpl; auto; try discriminate.
  intro E. apply andb_prop in E as [E1 E2]. f_equal; auto. apply tree_eqb_ok; auto.
Qed.

Theorem C13_exec_models_agree : forall terms a b,
  run0 terms a b = spec_eq terms a b /\ run1 terms a b = spec_eq terms a b.
Proof.
  intros terms a b. unfold run0, run1, spec_eq.
  assert (R : forall p, Nat.eqb p p = true) by (intro; apply Nat.eqb_refl).
  assert (S : forall p q, Nat.eqb p q = true -> Nat.eqb q p = true)
    by (intros p q E; apply Nat.eqb_eq in E; subst; apply Nat.eqb_refl).
  assert (T : forall p q r, Nat.eqb p q = true -> Nat.eqb q r = true -> Nat.eqb p r = true)
    by (intros p q r E1 E2; apply Nat.eqb_eq in E1, E2; subst; apply Nat.eqb_refl).
  assert (B : forall x y : bool, (x = true <-> y = true) -> x = y).
  { intros [|] [|] [P Q]; auto. symmetry; auto. }
  split; apply B.
  - apply C13_py_eq_spec; auto; intros; try discriminate; reflexivity.
  - apply C13_py_eq_spec; auto; intros; try reflexivity.
    + apply tree_eqb_ok; auto.
    + apply ops_eqb_ok; auto.
Qed.

Print Assumptions C13_exec_models_agree.
