(* C27 - Algorithms never mutate their inputs: the metadata-dict channel.

   A tiny aliasing IR for the way compute_form_data.attach_estimated_degrees,
   apply_integral_scaling, Integral.reconstruct, Measure.__call__/reconstruct/__init__ and
   group_form_integrals / accumulate_integrands_with_same_metadata handle metadata dicts:

     x = {}                       Assign x RNew
     x = y.copy() / dict(y)       Assign x (RCopyVar y)
     x = itg.metadata().copy()    Assign x (RCopyInput i)
     x = y                        Assign x (RAlias y)
     x = itg.metadata()           Assign x (RInput i)       (i-th dict that existed before the call)
     x.update(y)                  UpdateVar x y
     x.update(itg.metadata())     UpdateInput x i
     x[k] = v / x.pop(k) / ...    SetItem x k v
     Integral(..., x, ...) etc.   Use x                     (x escapes into a new object; no write)

   The heap maps addresses to dict contents; every dict that exists when the function is entered
   (the metadata dicts of the INPUT integrals / measures, the caller's dicts) has an address < n0.
   [safe] is a must-be-fresh analysis: every written variable is, at that point, bound to a dict
   allocated by this very function.  Frame theorem, for ALL IR programs, all heaps, all environments,
   all numbers of loop iterations: a safe program leaves every pre-existing dict unchanged.
   The T1 translator (py/C27_t1.py) emits the IR of the real functions into coq/Gen/C27_ir.v, where
   [safe prog [] = true] is checked by computation and the frame theorem is instantiated. *)

From Coq Require Import List Bool Arith Lia.
Import ListNotations.

Definition var := nat.
Definition addr := nat.

Inductive rhs := RNew | RCopyVar (y : var) | RCopyInput (i : nat) | RAlias (y : var) | RInput (i : nat).

Inductive stmt :=
 | Assign (x : var) (r : rhs)
 | UpdateVar (x y : var)
 | UpdateInput (x : var) (i : nat)
 | SetItem (x : var) (k v : nat)
 | Use (x : var).

Definition dict := list (nat * nat).

Record st := { env : var -> addr; sto : addr -> dict; nxt : addr }.

Definition upd {A} (f : nat -> A) (k : nat) (v : A) : nat -> A := fun j => if j =? k then v else f j.

Section Exec.
  Variable inputs : nat -> addr.      (* the dict objects reachable from the inputs *)

  Definition alloc (s : st) (x : var) (d : dict) : st :=
    {| env := upd (env s) x (nxt s); sto := upd (sto s) (nxt s) d; nxt := S (nxt s) |}.

  Definition write (s : st) (a : addr) (d : dict) : st :=
    {| env := env s; sto := upd (sto s) a d; nxt := nxt s |}.

  Definition exec1 (s : st) (c : stmt) : st :=
    match c with
    | Assign x RNew => alloc s x []
    | Assign x (RCopyVar y) => alloc s x (sto s (env s y))
    | Assign x (RCopyInput i) => alloc s x (sto s (inputs i))
    | Assign x (RAlias y) => {| env := upd (env s) x (env s y); sto := sto s; nxt := nxt s |}
    | Assign x (RInput i) => {| env := upd (env s) x (inputs i); sto := sto s; nxt := nxt s |}
    | UpdateVar x y => write s (env s x) (sto s (env s y) ++ sto s (env s x))
    | UpdateInput x i => write s (env s x) (sto s (inputs i) ++ sto s (env s x))
    | SetItem x k v => write s (env s x) ((k, v) :: sto s (env s x))
    | Use _ => s
    end.

  Definition exec (s : st) (p : list stmt) : st := fold_left exec1 p s.

  Fixpoint iter (n : nat) (p : list stmt) (s : st) : st :=
    match n with 0 => s | S m => iter m p (exec s p) end.

  (* ---- the analysis ---- *)
  Definition mem (x : var) (l : list var) : bool := existsb (Nat.eqb x) l.
  Definition remove (x : var) (l : list var) : list var := filter (fun y => negb (y =? x)) l.

  (* None = a write through a variable that is not known to be fresh *)
  Definition step (fresh : list var) (c : stmt) : option (list var) :=
    match c with
    | Assign x RNew | Assign x (RCopyVar _) | Assign x (RCopyInput _) => Some (x :: fresh)
    | Assign x (RAlias y) => Some (if mem y fresh then x :: fresh else remove x fresh)
    | Assign x (RInput _) => Some (remove x fresh)
    | UpdateVar x _ | UpdateInput x _ | SetItem x _ _ => if mem x fresh then Some fresh else None
    | Use _ => Some fresh
    end.

  Fixpoint analyse (fresh : list var) (p : list stmt) : option (list var) :=
    match p with
    | [] => Some fresh
    | c :: p' => match step fresh c with None => None | Some f => analyse f p' end
    end.

  Definition safe (p : list stmt) : bool := match analyse [] p with Some _ => true | None => false end.

  (* ---- frame ---- *)
  Variable n0 : addr.

  Definition Inv (fresh : list var) (s : st) : Prop :=
    n0 <= nxt s /\ forall x, mem x fresh = true -> n0 <= env s x /\ env s x < nxt s.

  Definition frame (s s' : st) : Prop := forall a, a < n0 -> sto s' a = sto s a.

  Lemma mem_cons x y l : mem x (y :: l) = (x =? y) || mem x l.
  Proof. reflexivity. Qed.

  Lemma mem_remove x y l : mem x (remove y l) = true -> mem x l = true /\ x <> y.
  Proof.
    unfold mem, remove. intro E. apply existsb_exists in E as (z & I & E). apply Nat.eqb_eq in E. subst z.
    apply filter_In in I as [I N]. split.
    - apply existsb_exists. exists x. split; auto. apply Nat.eqb_refl.
    - intro; subst. rewrite Nat.eqb_refl in N. discriminate.
  Qed.

  Lemma inv_alloc fresh s x d : Inv fresh s -> Inv (x :: fresh) (alloc s x d) /\ frame s (alloc s x d).
  Proof.
    intros [N F]. split; [split|].
    - simpl. lia.
    - intros y M. change (mem y (x :: fresh)) with ((y =? x) || mem y fresh) in M.
      simpl. unfold upd. destruct (y =? x) eqn:E; [lia|].
      simpl in M. destruct (F y M). lia.
    - intros a L. simpl. unfold upd. destruct (a =? nxt s) eqn:E; auto. apply Nat.eqb_eq in E. lia.
  Qed.

  Lemma inv_write fresh s x d : Inv fresh s -> mem x fresh = true ->
    Inv fresh (write s (env s x) d) /\ frame s (write s (env s x) d).
  Proof.
    intros [N F] M. split; [split|].
    - exact N.
    - exact F.
    - intros a L. simpl. unfold upd. destruct (a =? env s x) eqn:E; auto. apply Nat.eqb_eq in E.
      destruct (F x M). lia.
  Qed.

  Lemma step_sound fresh c fresh' s : step fresh c = Some fresh' -> Inv fresh s ->
    Inv fresh' (exec1 s c) /\ frame s (exec1 s c).
  Proof.
    intros St I. destruct c as [x r|x y|x i|x k v|x]; simpl in *.
    - destruct r; inversion St; subst; simpl; try (apply inv_alloc; auto).
      + (* alias *) destruct I as [N F]. split; [|intros a L; reflexivity]. split; simpl; auto.
        intros z M. unfold upd. destruct (mem y fresh) eqn:My.
        * change (mem z (x :: fresh)) with ((z =? x) || mem z fresh) in M.
          destruct (z =? x) eqn:E; simpl in M; auto.
        * apply mem_remove in M as [M Ne]. destruct (z =? x) eqn:E; [apply Nat.eqb_eq in E; contradiction|auto].
      + (* input *) destruct I as [N F]. split; [|intros a L; reflexivity]. split; simpl; auto.
        intros z M. apply mem_remove in M as [M Ne]. unfold upd.
        destruct (z =? x) eqn:E; [apply Nat.eqb_eq in E; contradiction|auto].
    - destruct (mem x fresh) eqn:M; inversion St; subst. apply inv_write; auto.
    - destruct (mem x fresh) eqn:M; inversion St; subst. apply inv_write; auto.
    - destruct (mem x fresh) eqn:M; inversion St; subst. apply inv_write; auto.
    - inversion St; subst. split; auto. intros a L; reflexivity.
  Qed.

  Lemma analyse_sound : forall p fresh fresh' s, analyse fresh p = Some fresh' -> Inv fresh s ->
    Inv fresh' (exec s p) /\ frame s (exec s p).
  Proof.
    induction p as [|c p IH]; simpl; intros fresh fresh' s A I.
    - inversion A; subst. split; auto. intros a L; reflexivity.
    - destruct (step fresh c) as [f|] eqn:St; [|discriminate].
      destruct (step_sound _ _ _ _ St I) as [I1 F1].
      destruct (IH _ _ _ A I1) as [I2 F2]. split; auto.
      intros a L. unfold exec in *. simpl. rewrite F2; auto.
  Qed.

  Lemma inv_weaken fresh s : Inv fresh s -> Inv [] s.
  Proof. intros [N _]. split; auto. intros x M. discriminate. Qed.

  (* MAIN THEOREM: all programs, all heaps, all environments, any number of iterations *)
  Theorem C27_frame : forall p, safe p = true ->
    forall n s, n0 <= nxt s -> frame s (iter n p s).
  Proof.
    intros p Sf. unfold safe in Sf. destruct (analyse [] p) as [f|] eqn:A; [|discriminate].
    induction n; simpl; intros s N.
    - intros a L; reflexivity.
    - assert (I : Inv [] s) by (split; auto; intros x M; discriminate).
      destruct (analyse_sound _ _ _ _ A I) as [I1 F1].
      pose proof (IHn (exec s p) (proj1 (inv_weaken _ _ I1))) as F2.
      intros a L. rewrite F2; auto.
  Qed.

  (* in particular the dicts of the inputs *)
  Corollary C27_inputs_unchanged : forall p, safe p = true ->
    (forall i, inputs i < n0) ->
    forall n s, n0 <= nxt s -> forall i, sto (iter n p s) (inputs i) = sto s (inputs i).
  Proof. intros p Sf Hi n s N i. apply (C27_frame p Sf n s N). apply Hi. Qed.
End Exec.

(* the analysis is not vacuous: the two mutations the property is about are rejected, and they do
   change an input dict *)
Example unsafe_alias_write : safe [Assign 0 (RInput 0); SetItem 0 7 1] = false.
Proof. reflexivity. Qed.

Theorem C27_alias_write_mutates :
  exists (inputs : nat -> addr) (s : st),
    sto (exec inputs s [Assign 0 (RInput 0); SetItem 0 7 1]) (inputs 0) <> sto s (inputs 0).
Proof.
  exists (fun _ => 0), {| env := fun _ => 0; sto := fun _ => []; nxt := 1 |}. simpl. discriminate.
Qed.

Example safe_copy_write :
  safe [Assign 0 RNew; UpdateInput 0 0; SetItem 0 7 1; Use 0] = true.
Proof. reflexivity. Qed.

Print Assumptions C27_frame.
Print Assumptions C27_inputs_unchanged.
Print Assumptions C27_alias_write_mutates.

(* ------------------------------------------------------------------------------------------- *)
(* The constructor protocol.  Python evaluates C(args) as
       obj = C.__new__(C, args);  if isinstance(obj, C): obj.__init__(args)
   Many UFL classes simplify in __new__ by returning an EXISTING object.  If that object is an instance
   of C, __init__ runs again on it.  A GUARDED __init__ (first statement: return if already initialised;
   the flag is False after allocation and set at the end of __init__) leaves it alone; an unguarded one
   overwrites its operands with the new arguments (typically the object itself: a cycle). *)
Section Protocol.
  Record pobj := { pcls : nat; pinit : bool; pops : list nat }.
  Definition pheap := list pobj.

  Inductive newres := NFresh | NExisting (a : nat).

  Fixpoint pset (h : pheap) (a : nat) (o : pobj) : pheap :=
    match h, a with
    | [], _ => []
    | _ :: t, 0 => o :: t
    | x :: t, S a' => x :: pset t a' o
    end.

  Definition run_init (guarded : bool) (h : pheap) (a : nat) (ops : list nat) : pheap :=
    match nth_error h a with
    | None => h
    | Some o => if guarded && pinit o then h
                else pset h a {| pcls := pcls o; pinit := true; pops := ops |}
    end.

  Definition construct (guarded : bool) (C : nat) (r : newres) (ops : list nat) (h : pheap) : pheap :=
    match r with
    | NFresh => h ++ [{| pcls := C; pinit := true; pops := ops |}]
    | NExisting a =>
        match nth_error h a with
        | Some o => if pcls o =? C then run_init guarded h a ops else h
        | None => h
        end
    end.

  Definition all_init (h : pheap) : Prop := forall a o, nth_error h a = Some o -> pinit o = true.

  (* every object that exists before the call is exactly as it was, for every class, every result of
     __new__, every argument list, every heap of initialised objects *)
  Theorem C27_guarded_ctor_pure : forall C r ops h, all_init h ->
    forall a o, nth_error h a = Some o -> nth_error (construct true C r ops h) a = Some o.
  Proof.
    intros C r ops h I a o E. destruct r as [|b]; simpl.
    - rewrite nth_error_app1; auto. apply nth_error_Some. congruence.
    - destruct (nth_error h b) as [ob|] eqn:Eb; auto.
      destruct (pcls ob =? C); auto. unfold run_init. rewrite Eb. simpl.
      rewrite (I b ob Eb). exact E.
  Qed.

  (* without the guard the returned instance is overwritten *)
  Theorem C27_unguarded_ctor_mutates :
    exists C ops h a o, all_init h /\ nth_error h a = Some o /\
      nth_error (construct false C (NExisting a) ops h) a <> Some o.
  Proof.
    exists 7, [0], [{| pcls := 7; pinit := true; pops := [5] |}], 0, {| pcls := 7; pinit := true; pops := [5] |}.
    split; [|split; [reflexivity | simpl; discriminate]].
    intros a o E. destruct a as [|[|a]]; simpl in E; inversion E; reflexivity.
  Qed.

  (* what the T1 table of a class says: __new__ may return an existing object / __init__ is guarded /
     __init__ writes operands or attributes *)
  Record centry := { returns_existing : bool; guarded_init : bool; init_writes : bool }.
  Definition protocol_safe (e : centry) : bool :=
    negb (returns_existing e) || guarded_init e || negb (init_writes e).
End Protocol.

Print Assumptions C27_guarded_ctor_pure.
Print Assumptions C27_unguarded_ctor_mutates.
