(* C02, hand-written part: a Gallina model [gat] of UFL's Gateaux differentiation rule table
   (GenericDerivativeRuleset + GateauxDerivativeRuleset of ufl/algorithms/apply_derivatives.py) and
   the theorem that it computes the true directional derivative for EVERY expression:

     for every UFL algebra, every environment, every derivation G of the algebra that obeys the
     chain rule for each function symbol and commutes with the spatial derivations D j, and every
     description dT of G on terminals (G(w) = v, G(f) = df.v, G(t) = 0):
         den (gat e) c = G (den e c)                 (all e, all components, all field values).

   "d/dtau F(w + tau v) at tau = 0" is exactly such a derivation (of the differential ring of
   fields over a cell); nothing about it is postulated: the laws are Section hypotheses.

   The Grad rule of the implementation ignores user-supplied coefficient derivatives (it returns 0
   for grad(f) although G(f) = df.v).  The model is faithful to that ([gradable k id = false] for
   such f): the theorem is therefore [C02_gateaux_partial] (under [sup e], which demands that every
   Grad is applied to a gradable terminal) and [C02_raises_refuted] exhibits the failure. *)
Require Import UFLV.Core.Den.
Require Import Lia.

Section Gateaux.
Variable A : ualg.
Add Field AfC02 : (kfield A).
Open Scope K_scope.
Variable env : side -> nat -> nat -> list nat -> A.
Variable D DX : nat -> A -> A.
Variable ki : A.
Notation DEN := (@den A env D DX ki).

(* ---------------------------------------------------------------------------------------- *)
(* the specification: a derivation with chain rules                                          *)
Variable G : A -> A.
Hypothesis GD : Derivation G.
Hypothesis G_D : forall j x, G (D j x) = D j (G x).
Hypothesis G_ki : G ki = k0.

Definition c_erf : A := kdyad 5081767996463981 (-52).     (* binary64 2/sqrt(pi) *)
Definition sq (x : A) : A := kpown x 2.
(* right-hand side of the chain rule for function symbol f at x, with gx = G x *)
Definition dvalG (f : mathfn) (x gx : A) : A :=
  match f with
  | FSqrt => gx / (of_Z 2 * kfn FSqrt x)
  | FExp => gx * kfn FExp x
  | FLn => gx / x
  | FCos => gx * (of_Z (-1) * kfn FSin x)
  | FSin => gx * kfn FCos x
  | FTan => gx * (of_Z 1 + sq (kfn FTan x))
  | FCosh => gx * kfn FSinh x
  | FSinh => gx * kfn FCosh x
  | FTanh => gx * (of_Z 1 + of_Z (-1) * sq (kfn FTanh x))
  | FAcos => (of_Z (-1) * gx) / kfn FSqrt (of_Z 1 + of_Z (-1) * sq x)
  | FAsin => gx / kfn FSqrt (of_Z 1 + of_Z (-1) * sq x)
  | FAtan => gx / (of_Z 1 + sq x)
  | FErf => gx * (c_erf * kfn FExp (of_Z (-1) * sq x))
  end.
Hypothesis G_fn : forall f x, G (kfn f x) = dvalG f x (G x).
Hypothesis G_pow : forall x y,
  G (kpow x y) = kpow x (y + of_Z (-1)) * (y * G x + x * kfn FLn x * G y).
Definition sgnv (x : A) : A :=
  kcond (bcmp CEQ x (of_Z 0)) (of_Z 0) (kcond (bcmp CLT x (of_Z 0)) (of_Z (-1)) (of_Z 1)).
Hypothesis G_abs : forall x, G (kabs x) = sgnv (kre x) * G x.
Hypothesis G_atan2 : forall x y,
  G (katan2 x y) = (y * G x + of_Z (-1) * (x * G y)) / (sq x + sq y).
Hypothesis G_min : forall x y, G (kmin x y) = kcond (bcmp CLT x y) (G x) (G y).
Hypothesis G_max : forall x y, G (kmax x y) = kcond (bcmp CGT x y) (G x) (G y).

(* G on terminals, described by expressions (w |-> v, f |-> df.v, other |-> Zero) *)
Variable dT : nat -> nat -> list nat -> expr.
Hypothesis dT_ok : forall s rho k id sh c, DEN s rho (dT k id sh) c = G (env s k id c).
(* terminals whose gradient the Grad rule differentiates correctly: the differentiation
   coefficients and the independent terminals -- NOT coefficients with a user-supplied relation *)
Variable gradable : nat -> nat -> bool.

(* ---------------------------------------------------------------------------------------- *)
(* the model of the rule table                                                               *)
Definition is_zero (e : expr) : bool := match e with Zero _ _ => true | _ => false end.
Definition sign_e (x : expr) : expr :=
  Conditional (Cmp CEQ x (IntV 0)) (IntV 0) (Conditional (Cmp CLT x (IntV 0)) (IntV (-1)) (IntV 1)).
Definition sq_e (a : expr) : expr := Power a (IntV 2).
Definition dmath (f : mathfn) (a ga : expr) : expr :=
  match f with
  | FSqrt => Division ga (Product (IntV 2) (Math FSqrt a))
  | FExp => Product ga (Math FExp a)
  | FLn => Division ga a
  | FCos => Product ga (Product (IntV (-1)) (Math FSin a))
  | FSin => Product ga (Math FCos a)
  | FTan => Product ga (Sum (IntV 1) (sq_e (Math FTan a)))
  | FCosh => Product ga (Math FSinh a)
  | FSinh => Product ga (Math FCosh a)
  | FTanh => Product ga (Sum (IntV 1) (Product (IntV (-1)) (sq_e (Math FTanh a))))
  | FAcos => Division (Product (IntV (-1)) ga) (Math FSqrt (Sum (IntV 1) (Product (IntV (-1)) (sq_e a))))
  | FAsin => Division ga (Math FSqrt (Sum (IntV 1) (Product (IntV (-1)) (sq_e a))))
  | FAtan => Division ga (Sum (IntV 1) (sq_e a))
  | FErf => Product ga (Product (RealV 5081767996463981 (-52))
                                (Math FExp (Product (IntV (-1)) (sq_e a))))
  end.
Fixpoint grad_chain (e : expr) : option (nat * nat) :=
  match e with Term k id _ => Some (k, id) | Grad a _ => grad_chain a | _ => None end.
(* expressions whose value does not depend on the component asked for: scalar operators, scalar
   terminals (an environment gives a scalar terminal one value), and what is built from them *)
Variable scalar_term : nat -> nat -> bool.
Hypothesis env_scalar : forall s k id c, scalar_term k id = true -> env s k id c = env s k id [].
Fixpoint cfree (e : expr) : bool :=
  match e with
  | Product _ _ | Division _ _ | Power _ _ | Indexed _ _ | Math _ _ | Atan2 _ _ | MinV _ _
  | MaxV _ _ | IntV _ | RealV _ _ | RatV _ _ | CplxV _ _ _ _ | Zero _ _ => true
  | Term k id _ => scalar_term k id
  | Sum a b => cfree a && cfree b
  | Abs a | Conj a | Real a | Imag a | Vari a _ | Restricted _ a | IndexSum a _ _ => cfree a
  | Conditional _ t f => cfree t && cfree f
  | _ => false
  end.

Fixpoint gat (e : expr) : expr :=
  match e with
  | Zero sh fi => Zero sh fi
  | IntV _ | RealV _ _ | CplxV _ _ _ _ | RatV _ _ => Zero [] []
  | Identity n => Zero [n; n] []
  | PermSym n => Zero (repeat n n) []
  | Term k id sh => dT k id sh
  | Sum a b => Sum (gat a) (gat b)
  | Product a b => Sum (Product (gat a) b) (Product a (gat b))
  | Division a b =>
      Division (Sum (gat a) (Product (IntV (-1)) (Product (Division a b) (gat b)))) b
  | Power a b =>
      match b with
      | IntV Z0 => Zero [] []
      | IntV (Zpos p) => Product (Product (gat a) b) (Power a (IntV (Z.pred (Zpos p))))
      | _ =>
          if is_zero (gat b)
          then Product (Product (gat a) b) (Power a (Sum b (IntV (-1))))
          else Product (Power a (Sum b (IntV (-1))))
                       (Sum (Product b (gat a)) (Product (Product a (Math FLn a)) (gat b)))
      end
  | Abs a => Product (sign_e (Real a)) (gat a)
  | Conj a => Conj (gat a)
  | Real a => Real (gat a)
  | Imag a => Imag (gat a)
  | Indexed a mi => Indexed (gat a) mi
  | IndexSum a i d => IndexSum (gat a) i d
  | ComponentTensor a ix => ComponentTensor (gat a) ix
  | ListTensor es => ListTensor (map gat es)
  | Conditional c t f => Conditional c (gat t) (gat f)
  | MinV a b => Conditional (Cmp CLT a b) (gat a) (gat b)
  | MaxV a b => Conditional (Cmp CGT a b) (gat a) (gat b)
  | Math f a => dmath f a (gat a)
  | Atan2 a b =>
      Division (Sum (Product b (gat a)) (Product (IntV (-1)) (Product a (gat b))))
               (Sum (sq_e a) (sq_e b))
  | Vari a _ => gat a
  | Restricted p a => Restricted p (gat a)
  | Grad a g =>
      match grad_chain a with
      | Some (k, id) => if gradable k id then Grad (gat a) g else Zero (shape a ++ [g]) []
      | None => Zero (shape a ++ [g]) []
      end
  | _ => Zero [] []
  end.

(* the expressions the rule table handles (everything else raises in the implementation) *)
Fixpoint sup (e : expr) : bool :=
  match e with
  | Zero _ _ | IntV _ | RealV _ _ | CplxV _ _ _ _ | RatV _ _ | Identity _ | PermSym _
  | Term _ _ _ => true
  | Sum a b | Product a b | Division a b | Power a b | Atan2 a b => sup a && sup b
  | MinV a b | MaxV a b => (sup a && sup b) && (cfree a && cfree b)
  | Abs a => sup a && cfree a
  | Conj a | Real a | Imag a | Indexed a _ | IndexSum a _ _ | ComponentTensor a _ | Math _ a
  | Vari a _ | Restricted _ a => sup a
  | ListTensor es => forallb sup es
  | Conditional _ t f => sup t && sup f
  | Grad a _ =>
      match grad_chain a with Some (k, id) => gradable k id && sup a | None => false end
  | _ => false
  end.

(* ---------------------------------------------------------------------------------------- *)
(* algebra lemmas                                                                            *)
Lemma G0 : G k0 = k0. Proof. apply d_zero; exact GD. Qed.
Lemma G1 : G k1 = k0. Proof. apply d_one; exact GD. Qed.
Lemma GZ z : G (of_Z z) = k0. Proof. apply d_of_Z; exact GD. Qed.
Lemma GP p : G (of_pos p) = k0. Proof. apply d_of_pos; exact GD. Qed.
Lemma Gadd x y : G (x + y) = G x + G y. Proof. apply (d_add A G GD). Qed.
Lemma Gmul x y : G (x * y) = G x * y + x * G y. Proof. apply (d_mul A G GD). Qed.
Lemma Gdiv x y : G (x / y) = (G x - (x / y) * G y) / y. Proof. apply (d_div A G GD). Qed.
Lemma Gopp x : G (- x) = - G x. Proof. apply d_opp; exact GD. Qed.
Lemma div_def (x y : A) : x / y = x * kinv y. Proof. apply (Fdiv_def (kfield A)). Qed.
Lemma Gdiv_const x y : G x = k0 -> G y = k0 -> G (x / y) = k0.
Proof. intros Hx Hy. rewrite Gdiv, Hx, Hy, !div_def. ring. Qed.
Lemma G_kdyad m e : G (kdyad m e) = k0.
Proof.
  destruct e; cbn [kdyad].
  - apply GZ.
  - rewrite Gmul, GZ, GP. ring.
  - apply Gdiv_const; [apply GZ | apply GP].
Qed.
Lemma G_perm c : G (perm_sign c) = k0.
Proof.
  unfold perm_sign. destruct (has_dup c); [apply G0|].
  destruct (Nat.even _); [apply G1 | rewrite Gopp, G1; ring].
Qed.

Lemma of_pos_succ p : of_pos (Pos.succ p) = (of_pos p + k1 : A).
Proof. rewrite <- Pos.add_1_r, of_pos_add. reflexivity. Qed.
Lemma G_kpown x n :
  G (kpown x (S n)) = G x * of_pos (Pos.of_succ_nat n) * kpown x n.
Proof.
  induction n as [|n IH].
  - cbn [kpown Pos.of_succ_nat of_pos]. rewrite Gmul, G1. ring.
  - change (kpown x (S (S n))) with (x * kpown x (S n)).
    rewrite Gmul, IH. cbn [Pos.of_succ_nat]. rewrite of_pos_succ. cbn [kpown]. ring.
Qed.

(* den of a power whose exponent is not a non-negative integer literal *)
Definition int_exp (b : expr) : bool :=
  match b with IntV Z0 => true | IntV (Zpos _) => true | _ => false end.
Lemma den_power_general s rho a b c :
  int_exp b = false -> DEN s rho (Power a b) c = kpow (DEN s rho a []) (DEN s rho b []).
Proof. destruct b; try reflexivity. destruct z; cbn [int_exp]; try discriminate; reflexivity. Qed.
Lemma den_pred_pow s rho a p c :
  DEN s rho (Power a (IntV (Z.pred (Zpos p)))) c
  = kpown (DEN s rho a []) (Init.Nat.pred (Pos.to_nat p)).
Proof.
  destruct (Pos.eq_dec p 1) as [->|Hp].
  - reflexivity.
  - assert (E : Z.pred (Zpos p) = Zpos (Pos.pred p)) by lia.
    rewrite E. cbn [den]. f_equal. lia.
Qed.

Lemma den_dmath s rho f a ga c :
  DEN s rho (dmath f a ga) c = dvalG f (DEN s rho a []) (DEN s rho ga []).
Proof. destruct f; reflexivity. Qed.

Lemma cfree_den e : cfree e = true -> forall s rho c, DEN s rho e c = DEN s rho e [].
Proof.
  induction e; cbn [cfree]; try discriminate; intros Hc s rho cc; try reflexivity;
    repeat match goal with H : _ && _ = true |- _ => apply andb_prop in H; destruct H end.
  - cbn [den]. apply env_scalar; assumption.
  - cbn [den]. rewrite (IHe1 H s rho cc), (IHe2 H0 s rho cc). reflexivity.
  - cbn [den]. rewrite (IHe Hc s rho cc). reflexivity.
  - cbn [den]. rewrite (IHe Hc s rho cc). reflexivity.
  - cbn [den]. rewrite (IHe Hc s rho cc). reflexivity.
  - cbn [den]. rewrite (IHe Hc s rho cc). reflexivity.
  - cbn [den]. apply ksum_ext. intros k _. apply IHe; assumption.
  - cbn [den]. rewrite (IHe1 H s rho cc), (IHe2 H0 s rho cc). reflexivity.
  - cbn [den]. apply IHe; assumption.
  - cbn [den]. apply IHe; assumption.
Qed.

Lemma grad_chain_sup a : forall k id, grad_chain a = Some (k, id) -> gradable k id = true ->
  sup a = true.
Proof.
  induction a; cbn [grad_chain]; try discriminate; intros k0' id0 E Hg.
  - reflexivity.
  - cbn [sup]. rewrite E, Hg. cbn. eapply IHa; eauto.
Qed.

(* ---------------------------------------------------------------------------------------- *)
(* the theorem                                                                               *)
Theorem C02_gateaux_partial :
  forall e, sup e = true -> forall s rho c, DEN s rho (gat e) c = G (DEN s rho e c).
Proof.
  fix IH 1. intros e Hs s rho c.
  destruct e; cbn [sup] in Hs; try discriminate Hs;
    repeat match goal with H : _ && _ = true |- _ => apply andb_prop in H; destruct H end.
  - (* Zero *) cbn. symmetry; apply G0.
  - (* IntV *) cbn [gat den]. symmetry; apply GZ.
  - (* RealV *) cbn [gat den]. symmetry; apply G_kdyad.
  - (* CplxV *) cbn [gat den]. rewrite Gadd, Gmul, !G_kdyad, G_ki. ring.
  - (* RatV *) cbn [gat den]. symmetry. apply Gdiv_const; [apply GZ | apply GP].
  - (* Identity *) cbn [gat den]. symmetry.
    destruct c as [|i [|j [|? ?]]]; try apply G0. destruct (Nat.eqb i j); [apply G1 | apply G0].
  - (* PermSym *) cbn [gat den]. symmetry; apply G_perm.
  - (* Term *) cbn [gat den]. apply dT_ok.
  - (* Sum *) cbn [gat den]. rewrite Gadd, !IH by assumption. reflexivity.
  - (* Product *) cbn [gat den]. rewrite Gmul, !IH by assumption. reflexivity.
  - (* Division *) cbn [gat den]. rewrite Gdiv, !IH by assumption. rewrite !div_def. cbn [of_Z of_pos]. ring.
  - (* Power *)
    destruct (int_exp e2) eqn:Ei.
    + destruct e2; try discriminate Ei. destruct z; try discriminate Ei.
      * cbn [gat den]. symmetry; apply G1.
      * cbn [gat]. change (DEN s rho (Power e1 (IntV (Z.pos p))) c)
          with (kpown (DEN s rho e1 []) (Pos.to_nat p)).
        destruct (Pos.to_nat p) as [|n] eqn:En; [lia|].
        rewrite G_kpown.
        change (DEN s rho (Product (Product (gat e1) (IntV (Z.pos p))) (Power e1 (IntV (Z.pred (Z.pos p))))) c)
          with (DEN s rho (gat e1) [] * of_pos p * DEN s rho (Power e1 (IntV (Z.pred (Z.pos p)))) []).
        rewrite den_pred_pow, En. cbn [Init.Nat.pred].
        rewrite IH by assumption.
        replace (Pos.of_succ_nat n) with p by lia. reflexivity.
    + rewrite den_power_general by exact Ei. rewrite G_pow.
      assert (Eg : gat (Power e1 e2) =
                   if is_zero (gat e2)
                   then Product (Product (gat e1) e2) (Power e1 (Sum e2 (IntV (-1))))
                   else Product (Power e1 (Sum e2 (IntV (-1))))
                          (Sum (Product e2 (gat e1)) (Product (Product e1 (Math FLn e1)) (gat e2)))).
      { destruct e2; try reflexivity. destruct z; try discriminate Ei; reflexivity. }
      rewrite Eg. pose proof (IH e2 H0 s rho []) as IH2. pose proof (IH e1 H s rho []) as IH1.
      destruct (is_zero (gat e2)) eqn:Ez.
      * destruct (gat e2); try discriminate Ez. cbn [den] in IH2. rewrite <- IH2.
        cbn [den]. rewrite IH1. ring.
      * cbn [den]. rewrite IH1, IH2. ring.
  - (* Abs *) cbn [gat]. change (DEN s rho (Abs e) c) with (kabs (DEN s rho e c)).
    rewrite (cfree_den e H0 s rho c).
    change (DEN s rho (Product (sign_e (Real e)) (gat e)) c)
      with (sgnv (kre (DEN s rho e [])) * DEN s rho (gat e) []).
    rewrite IH by assumption. rewrite G_abs. reflexivity.
  - (* Conj *) cbn [gat den]. rewrite IH by assumption. symmetry; apply (d_conj A G GD).
  - (* Real *) cbn [gat den]. rewrite IH by assumption. symmetry; apply (d_re A G GD).
  - (* Imag *) cbn [gat den]. rewrite IH by assumption. symmetry; apply (d_im A G GD).
  - (* Indexed *) cbn [gat den]. apply IH; assumption.
  - (* IndexSum *) cbn [gat den]. rewrite d_ksum by exact GD. apply ksum_ext. intros k _.
    apply IH; assumption.
  - (* ComponentTensor *) cbn [gat den]. apply IH; assumption.
  - (* ListTensor *) cbn [gat den]. destruct c as [|k c']; [symmetry; apply G0|].
    revert k. induction es as [|e0 es IHes]; intros k.
    + cbn. symmetry; apply G0.
    + cbn [forallb] in Hs. apply andb_prop in Hs. destruct Hs as [Hs0 Hs1].
      destruct k as [|k]; cbn [map].
      * apply IH; assumption.
      * apply IHes; assumption.
  - (* Conditional *) cbn [gat den]. rewrite !IH by assumption. symmetry; apply (d_cond A G GD).
  - (* MinV *) cbn [gat].
    change (DEN s rho (MinV e1 e2) c) with (kmin (DEN s rho e1 []) (DEN s rho e2 [])).
    change (DEN s rho (Conditional (Cmp CLT e1 e2) (gat e1) (gat e2)) c)
      with (kcond (bcmp CLT (DEN s rho e1 []) (DEN s rho e2 [])) (DEN s rho (gat e1) c) (DEN s rho (gat e2) c)).
    rewrite !IH by assumption. rewrite (cfree_den e1 H0 s rho c), (cfree_den e2 H1 s rho c).
    symmetry; apply G_min.
  - (* MaxV *) cbn [gat].
    change (DEN s rho (MaxV e1 e2) c) with (kmax (DEN s rho e1 []) (DEN s rho e2 [])).
    change (DEN s rho (Conditional (Cmp CGT e1 e2) (gat e1) (gat e2)) c)
      with (kcond (bcmp CGT (DEN s rho e1 []) (DEN s rho e2 [])) (DEN s rho (gat e1) c) (DEN s rho (gat e2) c)).
    rewrite !IH by assumption. rewrite (cfree_den e1 H0 s rho c), (cfree_den e2 H1 s rho c).
    symmetry; apply G_max.
  - (* Math *) cbn [gat]. rewrite den_dmath. cbn [den]. rewrite G_fn, IH by assumption. reflexivity.
  - (* Atan2 *) cbn [gat den]. rewrite G_atan2, !IH by assumption. reflexivity.
  - (* Vari *) cbn [gat den]. apply IH; assumption.
  - (* Restricted *) cbn [gat den]. apply IH; assumption.
  - (* Grad *) cbn [gat]. destruct (grad_chain e) as [[k id]|] eqn:Eg; [|discriminate Hs].
    apply andb_prop in Hs. destruct Hs as [Hg Hse]. rewrite Hg.
    cbn [den]. destruct (split_last c) as [c' j]. rewrite IH by assumption. symmetry; apply G_D.
Qed.

(* ---------------------------------------------------------------------------------------- *)
(* the Grad rule returns 0 for a coefficient with a user-supplied relation: whenever the true
   variation of that coefficient has a non-zero gradient, the model's (= the implementation's)
   answer is not the derivative -- although a value is returned, nothing raises.              *)
Theorem C02_raises_refuted :
  forall k id j s, gradable k id = false ->
  D j (G (env s k id [])) <> k0 ->
  exists e rho c, DEN s rho (gat e) c <> G (DEN s rho e c).
Proof.
  intros k id j s Hg Hnz.
  exists (Grad (Term k id []) 2), (fun _ => 0), [j].
  cbn [gat grad_chain]. rewrite Hg. cbn [den split_last removelast last].
  rewrite G_D. intro E. apply Hnz. symmetry. exact E.
Qed.

End Gateaux.

Print Assumptions C02_gateaux_partial.
Print Assumptions C02_raises_refuted.
