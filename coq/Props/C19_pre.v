(* C19 - pre_traversal and unique_pre_traversal of ufl/corealg/traversal.py as fuelled stack
   machines; closed form of the plain traversal, and for the unique traversal (all trees):
   no duplicates, exactly the structurally distinct sub-expressions, the root first and every other
   node after one of its users; fuel size+1 suffices. *)
Require Import List Arith Lia Bool.
Require Import UFLV.Props.C19_tree.
Import ListNotations.

(* ---------------- pre_traversal ---------------- *)
(* lifo: head = top of the Python list; `for op in operands: lifo.append(op)` leaves the last operand on top *)
Fixpoint pre_run (fuel : nat) (lifo : list tree) (out : list tree) : option (list tree) :=
  match fuel with
  | 0 => None
  | S f => match lifo with
           | [] => Some (rev out)
           | e :: rest => pre_run f (rev (ops e) ++ rest) (e :: out)
           end
  end.

Definition pre_traversal (t : tree) : option (list tree) := pre_run (size t + 1) [t] [].

Fixpoint pre_rec (t : tree) : list tree :=
  match t with Node _ cs => t :: concat (rev (map pre_rec cs)) end.

Lemma pre_rec_unfold : forall t, pre_rec t = t :: flat_map pre_rec (rev (ops t)).
Proof. destruct t. simpl. rewrite concat_rev_map. reflexivity. Qed.

Lemma pre_run_spec : forall fuel lifo out, list_sum (map size lifo) < fuel ->
  pre_run fuel lifo out = Some (rev out ++ flat_map pre_rec lifo).
Proof.
  induction fuel; intros lifo out Hf; [lia|].
  destruct lifo as [|e rest]; simpl.
  - rewrite app_nil_r. reflexivity.
  - rewrite IHfuel.
    + rewrite flat_map_app, pre_rec_unfold. simpl. rewrite <- !app_assoc. reflexivity.
    + rewrite map_app, list_sum_app, map_rev.
      assert (list_sum (rev (map size (ops e))) = list_sum (map size (ops e))).
      { generalize (map size (ops e)). induction l; simpl; auto. rewrite list_sum_app. simpl. lia. }
      simpl in Hf. destruct e; simpl in *. lia.
Qed.

Theorem C19_pre_traversal : forall t, pre_traversal t = Some (pre_rec t).
Proof.
  intros. unfold pre_traversal. rewrite pre_run_spec; simpl; [|lia]. rewrite app_nil_r. reflexivity.
Qed.

Lemma pre_rec_In : forall t x, In x (pre_rec t) <-> In x (subterms t).
Proof.
  induction t using tree_ind2. intros x. simpl. rewrite Forall_forall in H.
  split; (intros [Hx|Hx]; [left; exact Hx|right]).
  - apply in_concat in Hx. destruct Hx as (l0 & Hl & Hx). apply in_rev in Hl.
    apply in_map_iff in Hl. destruct Hl as (c & <- & Hc). apply in_concat_map. exists c. split; auto.
    apply H; auto.
  - apply in_concat_map in Hx. destruct Hx as (c & Hc & Hx). apply in_concat.
    exists (pre_rec c). split; [apply -> in_rev; apply in_map; auto|apply H; auto].
Qed.

(* ---------------- unique_pre_traversal ---------------- *)
Fixpoint pushl (cs : list tree) (lifo vis : list tree) : list tree * list tree :=
  match cs with
  | [] => (lifo, vis)
  | c :: r => if mem c vis then pushl r lifo vis else pushl r (c :: lifo) (c :: vis)
  end.

Fixpoint upre_run (fuel : nat) (lifo vis out : list tree) : option (list tree * list tree) :=
  match fuel with
  | 0 => None
  | S f => match lifo with
           | [] => Some (rev out, vis)
           | e :: rest => let (l', v') := pushl (ops e) rest vis in upre_run f l' v' (e :: out)
           end
  end.

Definition unique_pre_traversal (t : tree) (visited : list tree) :=
  upre_run (size t + 1) [t] (t :: visited) [].

Lemma pushl_spec : forall cs lifo vis, exists new,
  pushl cs lifo vis = (new ++ lifo, new ++ vis) /\ NoDup new /\
  (forall x, In x new -> In x cs /\ ~ In x vis) /\
  (forall c, In c cs -> In c (new ++ vis)).
Proof.
  induction cs as [|c r IH]; intros lifo vis; simpl.
  - exists []. simpl. repeat split; auto; try tauto. constructor.
  - destruct (mem c vis) eqn:Hm.
    + destruct (IH lifo vis) as (new & He & Hn & Hi & Hc). exists new. repeat split; auto.
      * right. apply Hi; auto.
      * apply Hi; auto.
      * intros c' [<-|Hc']; auto. apply in_or_app. right. apply mem_In; auto.
    + apply mem_nIn in Hm.
      destruct (IH (c :: lifo) (c :: vis)) as (new & He & Hn & Hi & Hc).
      exists (new ++ [c]). rewrite <- !app_assoc. simpl. repeat split; auto.
      * clear - Hn Hi. induction new; simpl; [repeat constructor; simpl; tauto|].
        inversion Hn; subst. constructor.
        -- rewrite in_app_iff. simpl. intros [Hx|[Hx|[]]]; [contradiction|].
           subst. destruct (Hi a (or_introl eq_refl)) as [_ Hna]. apply Hna. simpl; auto.
        -- apply IHnew; auto. intros x Hx. apply Hi. simpl; auto.
      * apply in_app_or in H. destruct H as [H|[<-|[]]]; auto. right. apply Hi; auto.
      * apply in_app_or in H. destruct H as [H|[<-|[]]]; auto.
        intros Hv. destruct (Hi x H) as [_ Hnx]. apply Hnx. simpl; auto.
      * intros c' [<-|Hc']; [apply in_or_app; right; simpl; auto|]. apply Hc; auto.
Qed.

Lemma NoDup_app_intro' : forall (a b : list tree),
  NoDup a -> NoDup b -> (forall x, In x a -> ~ In x b) -> NoDup (a ++ b).
Proof.
  induction a; simpl; intros; auto.
  inversion H; subst. constructor.
  - rewrite in_app_iff. intros [Hi|Hi]; [contradiction|]. apply (H1 a); auto.
  - apply IHa; auto.
Qed.

Section UPre.
Variable t : tree.

(* out is latest-first: every yielded node is the root or has a user yielded earlier *)
Fixpoint PO (out : list tree) : Prop :=
  match out with
  | [] => True
  | x :: earlier => (x = t \/ exists p, In p earlier /\ In x (ops p)) /\ PO earlier
  end.

Record Inv (lifo vis out : list tree) : Prop := {
  i_nd_out : NoDup out;
  i_nd_lifo : NoDup lifo;
  i_disj : forall x, In x out -> ~ In x lifo;
  i_vis : forall x, In x vis <-> In x out \/ In x lifo;
  i_sub : forall x, In x vis -> In x (subterms t);
  i_closed : forall x, In x out -> forall c, In c (ops x) -> In c vis;
  i_root : In t vis;
  i_po : PO out;
  i_par : forall x, In x lifo -> x = t \/ exists p, In p out /\ In x (ops p)
}.

Lemma Inv_init : Inv [t] [t] [].
Proof.
  constructor; simpl; auto; try tauto.
  - constructor.
  - repeat constructor. simpl; tauto.
  - intros x [<-|[]]. apply subterms_self.
  - intros x [<-|[]]. auto.
Qed.

Lemma Inv_step : forall e rest vis out, Inv (e :: rest) vis out ->
  Inv (fst (pushl (ops e) rest vis)) (snd (pushl (ops e) rest vis)) (e :: out).
Proof.
  intros e rest vis out I. destruct (pushl_spec (ops e) rest vis) as (new & He & Hn & Hi & Hc).
  rewrite He. simpl. destruct I as [I1 I2 I3 I4 I5 I6 I7 I8 I9].
  assert (Hevis : In e vis) by (apply I4; right; simpl; auto).
  inversion I2 as [|? ? Herest Hndrest]; subst.
  constructor.
  - constructor; auto. intros Ho. apply (I3 e Ho). simpl; auto.
  - apply NoDup_app_intro'; auto. intros x Hx Hr. apply (proj2 (Hi x Hx)). apply I4. right. simpl; auto.
  - intros x [<-|Hx] Hl; apply in_app_or in Hl; destruct Hl as [Hl|Hl].
    + apply (proj2 (Hi e Hl)); auto.
    + contradiction.
    + apply (proj2 (Hi x Hl)). apply I4; auto.
    + apply (I3 x Hx). simpl; auto.
  - intros x. rewrite !in_app_iff. rewrite I4. simpl. tauto.
  - intros x Hx. apply in_app_or in Hx. destruct Hx as [Hx|Hx]; auto.
    apply (subterms_trans t e x); auto.
    apply (subterms_child x x e); [apply (proj1 (Hi x Hx))|apply subterms_self].
  - intros x [<-|Hx] c Hcin.
    + apply Hc; auto.
    + apply in_or_app. right. eapply I6; eauto.
  - apply in_or_app; auto.
  - simpl. split; auto. destruct (I9 e (or_introl eq_refl)) as [->|(p & Hp & Hep)]; eauto.
  - intros x Hx. apply in_app_or in Hx. destruct Hx as [Hx|Hx].
    + right. exists e. split; [simpl; auto|apply (proj1 (Hi x Hx))].
    + destruct (I9 x (or_intror Hx)) as [->|(p & Hp & Hxp)]; auto.
      right. exists p. split; [simpl; auto|auto].
Qed.

Definition Final (r : list tree * list tree) : Prop :=
  let (o, v) := r in
  NoDup o /\
  (forall x, In x o <-> In x (subterms t)) /\
  (forall x, In x v <-> In x o) /\
  (forall o1 x o2, o = o1 ++ x :: o2 -> x = t \/ exists p, In p o1 /\ In x (ops p)).

Lemma PO_split : forall out o2 x o1, PO out -> out = o2 ++ x :: o1 ->
  x = t \/ exists p, In p o1 /\ In x (ops p).
Proof.
  induction out; intros o2 x o1 Hpo Heq.
  - destruct o2; discriminate.
  - destruct o2 as [|y o2]; simpl in Heq; inversion Heq; subst.
    + apply Hpo.
    + simpl in Hpo. eapply IHout; [apply Hpo|reflexivity].
Qed.

Lemma Inv_final : forall vis out, Inv [] vis out -> Final (rev out, vis).
Proof.
  intros vis out [I1 I2 I3 I4 I5 I6 I7 I8 I9]. unfold Final.
  assert (Hvo : forall x, In x vis <-> In x out).
  { intros x. rewrite I4. simpl. tauto. }
  split; [|split; [|split]].
  - apply NoDup_rev; auto.
  - intros x. rewrite <- in_rev. split.
    + intros Hx. apply I5. apply Hvo; auto.
    + intros Hx. apply (closed_contains_subterms (fun y => In y out)) with (t := t); auto.
      * intros y Hy c Hcin. apply Hvo. eapply I6; eauto.
      * apply Hvo; auto.
  - intros x. rewrite <- in_rev. apply Hvo.
  - intros o1 x o2 Heq.
    assert (Hout : out = rev o2 ++ x :: rev o1).
    { rewrite <- (rev_involutive out), Heq, rev_app_distr. simpl. rewrite <- app_assoc. reflexivity. }
    destruct (PO_split out (rev o2) x (rev o1) I8 Hout) as [->|(p & Hp & Hxp)]; auto.
    right. exists p. split; auto. apply in_rev; auto.
Qed.

Lemma out_bound : forall lifo vis out, Inv lifo vis out -> length out <= size t.
Proof.
  intros lifo vis out I. rewrite <- length_subterms.
  apply NoDup_incl_length; [apply (i_nd_out _ _ _ I)|].
  intros x Hx. apply (i_sub _ _ _ I). apply (i_vis _ _ _ I). auto.
Qed.

Lemma upre_total : forall fuel lifo vis out, Inv lifo vis out -> size t < fuel + length out ->
  exists r, upre_run fuel lifo vis out = Some r /\ Final r.
Proof.
  induction fuel; intros lifo vis out I Hf.
  - pose proof (out_bound _ _ _ I). lia.
  - destruct lifo as [|e rest]; simpl.
    + eexists. split; [reflexivity|]. apply Inv_final; auto.
    + pose proof (Inv_step e rest vis out I) as I'.
      destruct (pushl (ops e) rest vis) as [l' v']. simpl in I'.
      apply IHfuel; auto. simpl. lia.
Qed.

Theorem unique_pre_total : exists o v, unique_pre_traversal t [] = Some (o, v) /\ Final (o, v).
Proof.
  destruct (upre_total (size t + 1) [t] [t] [] Inv_init) as ([o v] & Hr & HF); [simpl; lia|].
  exists o, v. split; auto.
Qed.
End UPre.

(* C19 (pre-order part): for every expression tree, unique_pre_traversal terminates within fuel
   size+1, yields no node twice, yields exactly the structurally distinct sub-expressions, and every
   yielded node is the root or an operand of a node yielded earlier (so the root comes first). *)
Theorem C19_unique_pre : forall t, exists o v,
  unique_pre_traversal t [] = Some (o, v) /\
  NoDup o /\
  (forall x, In x o <-> In x (subterms t)) /\
  (forall o1 x o2, o = o1 ++ x :: o2 -> x = t \/ exists p, In p o1 /\ In x (ops p)) /\
  (exists o', o = t :: o').
Proof.
  intros t. destruct (unique_pre_total t) as (o & v & Hr & Hnd & Hin & _ & Hpar).
  exists o, v. repeat split; auto; try apply Hin.
  destruct o as [|x o'].
  - exfalso. apply (proj2 (Hin t) (subterms_self t)).
  - destruct (Hpar [] x o' eq_refl) as [->|(p & [] & _)]. eauto.
Qed.
Print Assumptions C19_unique_pre.
Print Assumptions C19_pre_traversal.
