(** * C29 - model of ufl/sorting.py:cmp_expr and of the operand sorting of Sum/Product/Inner

    Hand model (tie T3, checked against /repo on every run by py/props/C29.py).  The model is
    faithful to the code *including* its quirks:
    - [cmp_expr] is a pre-order traversal with an explicit stack: the type codes of a pair are compared
      first, then (operators) the pairs of operands are pushed and the NUMBER of operands is compared,
      and only then the operand pairs are popped - LAST operand pair first;
    - [_cmp_multi_index] walks [zip(a, b)] (truncating to the shorter multi-index) and never looks at
      the lengths;
    - [_cmp_label] is constantly 0, [_cmp_coefficient] compares counts numerically, [_cmp_argument]
      compares (number, part), every other terminal is compared through its [repr] STRING, in which
      counts (Constant) and mesh ids are rendered in decimal ("10" < "9").
    Numbers are binary [N]; the comparator returns [comparison] (Lt/Eq/Gt = -1/0/1). *)

From Coq Require Import String Ascii DecimalString NArith Bool Lia PeanoNat List.
Import ListNotations.
Open Scope N_scope.

(** ** comparison combinators *)

Definition then_ (c d : comparison) : comparison := match c with Eq => d | _ => c end.

Definition ceqb (c d : comparison) : bool :=
  match c, d with Eq, Eq | Lt, Lt | Gt, Gt => true | _, _ => false end.

Lemma ceqb_eq c d : ceqb c d = true <-> c = d.
Proof. destruct c, d; simpl; split; intro H; try reflexivity; discriminate. Qed.

(** [t3 x y z]: the three results x = cmp a b, y = cmp b c, z = cmp a c are those of a consistent
    total preorder (transitivity of <, of ~, and compatibility of ~ with <). *)
Definition t3 (x y z : comparison) : bool :=
  match x, y with
  | Eq, _ => ceqb z y
  | _, Eq => ceqb z x
  | Lt, Lt => ceqb z Lt
  | Gt, Gt => ceqb z Gt
  | _, _ => true
  end.

Lemma then_opp c d : CompOpp (then_ c d) = then_ (CompOpp c) (CompOpp d).
Proof. destruct c, d; reflexivity. Qed.

Lemma then_assoc a b c : then_ (then_ a b) c = then_ a (then_ b c).
Proof. destruct a, b, c; reflexivity. Qed.

Lemma then_Eq_r c : then_ c Eq = c.
Proof. destruct c; reflexivity. Qed.

Lemma then_eq_Eq c d : then_ c d = Eq <-> c = Eq /\ d = Eq.
Proof. destruct c, d; simpl; intuition discriminate. Qed.

Lemma t3_then x1 y1 z1 x2 y2 z2 :
  t3 x1 y1 z1 = true -> (x1 = Eq -> y1 = Eq -> t3 x2 y2 z2 = true) ->
  t3 (then_ x1 x2) (then_ y1 y2) (then_ z1 z2) = true.
Proof.
  destruct x1, y1, z1; simpl; intros H1 H2; try discriminate; try reflexivity;
    try (specialize (H2 eq_refl eq_refl)); destruct x2, y2, z2; simpl in *;
    try reflexivity; try discriminate.
Qed.

Lemma t3_refl_Eq : t3 Eq Eq Eq = true. Proof. reflexivity. Qed.

Lemma ncmp_t3 x y z : t3 (x ?= y) (y ?= z) (x ?= z) = true.
Proof.
  destruct (N.compare_spec x y), (N.compare_spec y z), (N.compare_spec x z);
    simpl; try reflexivity; lia.
Qed.

Lemma natcmp_t3 (x y z : nat) : t3 (Nat.compare x y) (Nat.compare y z) (Nat.compare x z) = true.
Proof.
  destruct (Nat.compare_spec x y), (Nat.compare_spec y z), (Nat.compare_spec x z);
    simpl; try reflexivity; lia.
Qed.

(** ** list comparators *)

Section Lists.
  Context {A : Type}.
  Variable c : A -> A -> comparison.

  (** true lexicographic order (a proper prefix is smaller) - Python's [str] / tuple order *)
  Fixpoint lex (l1 l2 : list A) : comparison :=
    match l1, l2 with
    | [], [] => Eq
    | [], _ :: _ => Lt
    | _ :: _, [] => Gt
    | x :: l1', y :: l2' => then_ (c x y) (lex l1' l2')
    end.

  (** [for i, j in zip(a, b)]: first decision from the left, truncated to the shorter list *)
  Fixpoint zipc (l1 l2 : list A) : comparison :=
    match l1, l2 with
    | x :: l1', y :: l2' => then_ (c x y) (zipc l1' l2')
    | _, _ => Eq
    end.

  (** the operand loop of cmp_expr: pairs are pushed left to right and popped right to left *)
  Fixpoint rzip (l1 l2 : list A) : comparison :=
    match l1, l2 with
    | x :: l1', y :: l2' => then_ (rzip l1' l2') (c x y)
    | _, _ => Eq
    end.

  Lemma lex_zipc l1 l2 :
    lex l1 l2 = then_ (zipc l1 l2) (Nat.compare (length l1) (length l2)).
  Proof.
    revert l2; induction l1 as [|x l1 IH]; destruct l2 as [|y l2]; simpl; try reflexivity.
    rewrite IH, then_assoc. reflexivity.
  Qed.

  Lemma zipc_same_length l1 l2 : length l1 = length l2 -> zipc l1 l2 = lex l1 l2.
  Proof. intro H. rewrite lex_zipc, H, Nat.compare_refl, then_Eq_r. reflexivity. Qed.

  Hypothesis c_opp : forall x y, c y x = CompOpp (c x y).

  Lemma lex_opp l1 l2 : lex l2 l1 = CompOpp (lex l1 l2).
  Proof.
    revert l2; induction l1 as [|x l1 IH]; destruct l2 as [|y l2]; simpl; try reflexivity.
    rewrite then_opp, <- IH, <- c_opp. reflexivity.
  Qed.

  Lemma zipc_opp l1 l2 : zipc l2 l1 = CompOpp (zipc l1 l2).
  Proof.
    revert l2; induction l1 as [|x l1 IH]; destruct l2 as [|y l2]; simpl; try reflexivity.
    rewrite then_opp, <- IH, <- c_opp. reflexivity.
  Qed.

  Hypothesis c_t3 : forall x y z, t3 (c x y) (c y z) (c x z) = true.

  Lemma lex_t3 l1 l2 l3 : t3 (lex l1 l2) (lex l2 l3) (lex l1 l3) = true.
  Proof.
    revert l2 l3; induction l1 as [|x l1 IH]; destruct l2 as [|y l2]; destruct l3 as [|z l3];
      simpl; try reflexivity.
    - destruct (then_ (c y z) (lex l2 l3)); reflexivity.
    - destruct (then_ (c x y) (lex l1 l2)); reflexivity.
    - apply t3_then; [apply c_t3 | intros _ _; apply IH].
  Qed.
End Lists.

Section ListsEq.
  Context {A B : Type}.
  Variable c : A -> A -> comparison.
  Variable f : A -> B.
  Hypothesis c_eq : forall x y, c x y = Eq <-> f x = f y.

  Lemma lex_eq_iff l1 l2 : lex c l1 l2 = Eq <-> map f l1 = map f l2.
  Proof.
    revert l2; induction l1 as [|x l1 IH]; destruct l2 as [|y l2]; simpl;
      try (split; intro H; try reflexivity; discriminate).
    rewrite then_eq_Eq, c_eq, IH. split.
    - intros [H1 H2]. congruence.
    - intro H. injection H. auto.
  Qed.
End ListsEq.

(** nested-induction versions for the operand loop (hypotheses only for the elements of l1) *)
Section RZip.
  Context {A : Type}.
  Variable c : A -> A -> comparison.

  Lemma rzip_opp l1 :
    Forall (fun x => forall y, c y x = CompOpp (c x y)) l1 ->
    forall l2, rzip c l2 l1 = CompOpp (rzip c l1 l2).
  Proof.
    induction 1 as [|x l1 Hx _ IH]; destruct l2 as [|y l2]; simpl; try reflexivity.
    rewrite then_opp, <- IH, <- Hx. reflexivity.
  Qed.

  Lemma rzip_t3 l1 :
    Forall (fun x => forall y z, t3 (c x y) (c y z) (c x z) = true) l1 ->
    forall l2 l3, t3 (rzip c l1 l2) (rzip c l2 l3) (rzip c l1 l3) = true
                  \/ length l1 <> length l2 \/ length l2 <> length l3.
  Proof.
    induction 1 as [|x l1 Hx _ IH]; destruct l2 as [|y l2]; destruct l3 as [|z l3]; simpl;
      try (left; reflexivity); try (right; left; discriminate); try (right; right; discriminate).
    destruct (IH l2 l3) as [H | [H | H]].
    - left. apply t3_then; [exact H | intros _ _; apply Hx].
    - right; left; congruence.
    - right; right; congruence.
  Qed.
End RZip.

(** ** terminals *)

Inductive idx := Fixed (v : N) | Free (c : N).          (* FixedIndex(value) / Index(count) *)
Inductive cclass := CConstant | CMesh.                   (* counters that appear inside repr strings *)
Inductive piece := PLit (s : string) | PCnt (k : cclass) (n : N).

Inductive tdata :=
| TMulti (l : list idx)                          (* MultiIndex *)
| TArg (number : N) (part : option N) (fs : N)   (* Argument; fs = function space (not inspected) *)
| TCoef (count : N) (fs : N)                     (* Coefficient; fs not inspected *)
| TLabel (count : N)                             (* Label *)
| TRepr (ps : list piece)                        (* every other terminal: pieces of its repr *)
| TGeo (key : string) (mesh : N).                (* geometric quantity under the repaired comparator
                                                    (fixes/C12-geometry-cmp-by-domain-id.diff): repr of the
                                                    coordinate element, then the mesh id as a NUMBER *)

Definition dec (n : N) : string := NilZero.string_of_uint (N.to_uint n).
Definition render_piece (p : piece) : string := match p with PLit s => s | PCnt _ n => dec n end.
Definition render (ps : list piece) : string := String.concat "" (map render_piece ps).
Definition codes (s : string) : list N := map N_of_ascii (list_ascii_of_string s).
Definition cmp_str (s1 s2 : string) : comparison := lex N.compare (codes s1) (codes s2).

Definition cmp_idx (i j : idx) : comparison :=
  match i, j with
  | Fixed x, Fixed y => x ?= y
  | Fixed _, Free _ => Lt
  | Free _, Fixed _ => Gt
  | Free _, Free _ => Eq
  end.

Definition cmp_opt (p q : option N) : comparison :=
  match p, q with
  | None, None => Eq
  | None, Some _ => Lt     (* Python: TypeError (None < int); outside the modelled domain *)
  | Some _, None => Gt
  | Some x, Some y => x ?= y
  end.

Definition kind (d : tdata) : N :=
  match d with TMulti _ => 0 | TArg _ _ _ => 1 | TCoef _ _ => 2 | TLabel _ => 3 | TRepr _ => 4 | TGeo _ _ => 5 end.

(** [strict = false]: the code as it is.  [strict = true]: the repaired [_cmp_multi_index] that also
    compares the lengths after the zip loop (fixes/C29-multiindex-length.diff). *)
Definition cmp_tdata (strict : bool) (d e : tdata) : comparison :=
  match d, e with
  | TMulti l1, TMulti l2 => if strict then lex cmp_idx l1 l2 else zipc cmp_idx l1 l2
  | TArg n p _, TArg m q _ => then_ (n ?= m) (cmp_opt p q)
  | TCoef x _, TCoef y _ => x ?= y
  | TLabel _, TLabel _ => Eq
  | TRepr ps, TRepr qs => cmp_str (render ps) (render qs)
  | TGeo k1 m1, TGeo k2 m2 => then_ (cmp_str k1 k2) (m1 ?= m2)
  | _, _ => kind d ?= kind e
  end.

(** ** expression trees and cmp_expr *)

Inductive tree := Leaf (tc : N) (d : tdata) | Node (tc : N) (ops : list tree).

Fixpoint cmpg (strict : bool) (a b : tree) {struct a} : comparison :=
  match a, b with
  | Leaf ta da, Leaf tb db => then_ (ta ?= tb) (cmp_tdata strict da db)
  | Leaf ta _, Node tb _ => then_ (ta ?= tb) Lt
  | Node ta _, Leaf tb _ => then_ (ta ?= tb) Gt
  | Node ta oa, Node tb ob =>
      then_ (ta ?= tb)
            (then_ (Nat.compare (length oa) (length ob)) (rzip (cmpg strict) oa ob))
  end.

Definition cmp : tree -> tree -> comparison := cmpg false.     (* ufl.sorting.cmp_expr *)
Definition cmpS : tree -> tree -> comparison := cmpg true.     (* with the repair *)

Lemma tree_ind' (P : tree -> Prop) :
  (forall tc d, P (Leaf tc d)) ->
  (forall tc ops, Forall P ops -> P (Node tc ops)) ->
  forall t, P t.
Proof.
  intros HL HN. fix IH 1. intros [tc d | tc ops]; [apply HL | apply HN].
  induction ops as [|x ops IHops]; constructor; [apply IH | exact IHops].
Qed.

(** ** antisymmetry (all trees, both comparators) *)

Lemma cmp_idx_opp i j : cmp_idx j i = CompOpp (cmp_idx i j).
Proof. destruct i, j; simpl; try reflexivity. apply N.compare_antisym. Qed.

Lemma cmp_opt_opp p q : cmp_opt q p = CompOpp (cmp_opt p q).
Proof. destruct p, q; simpl; try reflexivity. apply N.compare_antisym. Qed.

Lemma cmp_str_opp s1 s2 : cmp_str s2 s1 = CompOpp (cmp_str s1 s2).
Proof. unfold cmp_str. apply lex_opp. intros; apply N.compare_antisym. Qed.

Lemma cmp_tdata_opp s d e : cmp_tdata s e d = CompOpp (cmp_tdata s d e).
Proof.
  destruct d, e; simpl; try reflexivity.
  - destruct s; [apply lex_opp | apply zipc_opp]; apply cmp_idx_opp.
  - rewrite then_opp, <- N.compare_antisym, <- cmp_opt_opp. reflexivity.
  - apply N.compare_antisym.
  - apply cmp_str_opp.
  - rewrite then_opp, <- N.compare_antisym, <- cmp_str_opp. reflexivity.
Qed.

Theorem C29_cmp_antisym : forall s a b, cmpg s b a = CompOpp (cmpg s a b).
Proof.
  intros s a. induction a as [ta da | ta oa IH] using tree_ind'; intros [tb db | tb ob]; simpl;
    rewrite ?then_opp, <- ?N.compare_antisym; try reflexivity.
  - rewrite <- cmp_tdata_opp. reflexivity.
  - rewrite <- (rzip_opp _ _ IH), Nat.compare_antisym. reflexivity.
Qed.

Corollary C29_cmp_refl : forall s a, cmpg s a a = Eq.
Proof. intros s a. pose proof (C29_cmp_antisym s a a) as H. destruct (cmpg s a a); simpl in H; congruence. Qed.

(** ** consistency (transitivity) of the repaired comparator, for ALL trees *)

Lemma cmp_idx_t3 i j k : t3 (cmp_idx i j) (cmp_idx j k) (cmp_idx i k) = true.
Proof. destruct i, j, k; simpl; try reflexivity; try apply ncmp_t3;
  match goal with |- context [?a ?= ?b] => destruct (a ?= b); reflexivity end. Qed.

Lemma cmp_opt_t3 p q r : t3 (cmp_opt p q) (cmp_opt q r) (cmp_opt p r) = true.
Proof. destruct p, q, r; simpl; try reflexivity; try apply ncmp_t3;
  match goal with |- context [?a ?= ?b] => destruct (a ?= b); reflexivity end. Qed.

Lemma cmp_str_t3 a b c : t3 (cmp_str a b) (cmp_str b c) (cmp_str a c) = true.
Proof. apply lex_t3. apply ncmp_t3. Qed.

Definition mi_len (d : tdata) : option nat := match d with TMulti l => Some (length l) | _ => None end.

(** terminal data: consistent whenever multi-indices are compared strictly or have equal lengths *)
Lemma cmp_tdata_t3 s d e f :
  (s = true \/ (mi_len d = mi_len e /\ mi_len e = mi_len f)) ->
  t3 (cmp_tdata s d e) (cmp_tdata s e f) (cmp_tdata s d f) = true.
Proof.
  intro Hs.
  destruct d, e, f; simpl;
    try reflexivity; try apply ncmp_t3; try apply cmp_str_t3;
    try (apply t3_then; [apply ncmp_t3 | intros _ _; apply cmp_opt_t3]);
    try (apply t3_then; [apply cmp_str_t3 | intros _ _; apply ncmp_t3]);
    try (match goal with |- t3 ?x ?y ?z = true =>
           (destruct x; reflexivity) || (destruct y; reflexivity) end);
    try (match goal with |- match ?x with _ => _ end = true => destruct x; reflexivity end).
  destruct s.
  - apply lex_t3, cmp_idx_t3.
  - destruct Hs as [Hs | [H1 H2]]; [discriminate|]. simpl in H1, H2.
    injection H1 as H1. injection H2 as H2.
    rewrite !zipc_same_length by congruence. apply lex_t3, cmp_idx_t3.
Qed.

Theorem C29_cmpS_consistent : forall a b c, t3 (cmpS a b) (cmpS b c) (cmpS a c) = true.
Proof.
  unfold cmpS. intro a. induction a as [ta da | ta oa IH] using tree_ind';
    intros [tb db | tb ob] [tc dc | tc oc]; simpl;
    (apply t3_then; [apply ncmp_t3 | intros _ _]); try reflexivity.
  - apply cmp_tdata_t3. left; reflexivity.
  - destruct (cmp_tdata true da db); reflexivity.
  - destruct (then_ (Nat.compare (length ob) (length oc)) (rzip (cmpg true) ob oc)); reflexivity.
  - destruct (cmp_tdata true db dc); reflexivity.
  - destruct (then_ (Nat.compare (length oa) (length ob)) (rzip (cmpg true) oa ob)); reflexivity.
  - apply t3_then; [apply natcmp_t3 | intros H1 H2].
    apply Nat.compare_eq in H1. apply Nat.compare_eq in H2.
    destruct (rzip_t3 _ _ IH ob oc) as [H | [H | H]]; [exact H | contradiction | contradiction].
Qed.

(** ** where cmp_expr and the repaired comparator agree *)

Definition mi_ok (l1 l2 : list idx) : bool :=
  Nat.eqb (length l1) (length l2) || negb (ceqb (zipc cmp_idx l1 l2) Eq).

(** [aligned a b]: no two multi-indices of different length, undecided on their common prefix, sit
    at corresponding positions of a and b (below nodes of equal type code and arity). *)
Fixpoint aligned (a b : tree) {struct a} : bool :=
  match a, b with
  | Leaf ta (TMulti l1), Leaf tb (TMulti l2) => negb (ta =? tb) || mi_ok l1 l2
  | Node ta oa, Node tb ob =>
      negb (ta =? tb) || negb (Nat.eqb (length oa) (length ob)) ||
      (fix go (l1 l2 : list tree) {struct l1} : bool :=
         match l1, l2 with
         | x :: l1', y :: l2' => aligned x y && go l1' l2'
         | _, _ => true
         end) oa ob
  | _, _ => true
  end.

Lemma mi_ok_agree l1 l2 : mi_ok l1 l2 = true -> zipc cmp_idx l1 l2 = lex cmp_idx l1 l2.
Proof.
  unfold mi_ok. intro H. apply orb_true_iff in H. destruct H as [H | H].
  - apply zipc_same_length. apply Nat.eqb_eq. exact H.
  - rewrite lex_zipc. destruct (zipc cmp_idx l1 l2); simpl in *; try reflexivity; discriminate.
Qed.

Theorem C29_cmp_agree : forall a b, aligned a b = true -> cmp a b = cmpS a b.
Proof.
  unfold cmp, cmpS. intro a. induction a as [ta da | ta oa IH] using tree_ind';
    intros [tb db | tb ob] H; simpl in *; try reflexivity.
  - destruct da, db; simpl; try reflexivity.
    destruct (N.compare_spec ta tb) as [E | E | E]; simpl; try reflexivity.
    subst. rewrite N.eqb_refl in H. simpl in H. rewrite (mi_ok_agree _ _ H). reflexivity.
  - destruct (N.compare_spec ta tb) as [E | E | E]; simpl; try reflexivity.
    subst. rewrite N.eqb_refl in H. simpl in H.
    destruct (Nat.compare_spec (length oa) (length ob)) as [E | E | E]; simpl; try reflexivity.
    rewrite E, Nat.eqb_refl in H. simpl in H. clear E.
    revert ob H. induction IH as [|x l1 Hx _ IHl]; destruct ob as [|y l2]; simpl; try reflexivity.
    intro H. apply andb_true_iff in H. destruct H as [H1 H2].
    rewrite (Hx y H1), (IHl l2 H2). reflexivity.
Qed.

(** transitivity of cmp_expr itself: holds on aligned triples ... *)
Theorem C29_cmp_consistent_partial : forall a b c,
  aligned a b = true -> aligned b c = true -> aligned a c = true ->
  t3 (cmp a b) (cmp b c) (cmp a c) = true.
Proof.
  intros a b c H1 H2 H3. rewrite (C29_cmp_agree _ _ H1), (C29_cmp_agree _ _ H2), (C29_cmp_agree _ _ H3).
  apply C29_cmpS_consistent.
Qed.

(** ... in particular when all multi-indices of the three trees have one common length *)
Fixpoint uniform (n : nat) (a : tree) : bool :=
  match a with
  | Leaf _ (TMulti l) => Nat.eqb (length l) n
  | Leaf _ _ => true
  | Node _ ops => forallb (uniform n) ops
  end.

Lemma uniform_aligned n : forall a b, uniform n a = true -> uniform n b = true -> aligned a b = true.
Proof.
  intro a. induction a as [ta da | ta oa IH] using tree_ind'; intros [tb db | tb ob] Ha Hb;
    simpl in *; try reflexivity.
  - destruct da; try reflexivity. destruct db; try reflexivity.
    apply Nat.eqb_eq in Ha. apply Nat.eqb_eq in Hb. unfold mi_ok.
    rewrite Ha, Hb, Nat.eqb_refl. simpl. apply orb_true_r.
  - destruct da; reflexivity.
  - apply orb_true_iff. right.
    revert ob Ha Hb. induction IH as [|x l1 Hx _ IHl]; destruct ob as [|y l2]; simpl; try reflexivity.
    intros Ha Hb. apply andb_true_iff in Ha. apply andb_true_iff in Hb.
    destruct Ha as [Ha1 Ha2], Hb as [Hb1 Hb2]. rewrite (Hx y Ha1 Hb1). simpl. apply IHl; assumption.
Qed.

Corollary C29_cmp_consistent_equal_length : forall n a b c,
  uniform n a = true -> uniform n b = true -> uniform n c = true ->
  t3 (cmp a b) (cmp b c) (cmp a c) = true.
Proof.
  intros n a b c Ha Hb Hc.
  apply C29_cmp_consistent_partial; eapply uniform_aligned; eassumption.
Qed.

(** ... and is refuted in general: A[0,1] > B[0] > C[0,2] > A[0,1] (Indexed = node, the multi-index
    is its LAST operand and therefore compared first; A, B, C coefficients with counts 4 > 3 > 2).
    The type codes are irrelevant (any tcI, tcM, tcC). *)
Definition wit_indexed (tcI tcM tcC : N) (count : N) (mi : list idx) : tree :=
  Node tcI [Leaf tcC (TCoef count 0); Leaf tcM (TMulti mi)].

Theorem C29_cmp_consistent_refuted : forall tcI tcM tcC,
  let a := wit_indexed tcI tcM tcC 4 [Fixed 0; Fixed 1] in
  let b := wit_indexed tcI tcM tcC 3 [Fixed 0] in
  let c := wit_indexed tcI tcM tcC 2 [Fixed 0; Fixed 2] in
  cmp a b = Gt /\ cmp b c = Gt /\ cmp c a = Gt /\ t3 (cmp a b) (cmp b c) (cmp a c) = false.
Proof.
  intros. unfold cmp, a, b, c, wit_indexed. simpl. rewrite !N.compare_refl. simpl. repeat split.
Qed.

(** ** cmp = Eq  <->  equal up to the data the comparator does not look at *)

Definition erase_idx (i : idx) : idx := match i with Fixed v => Fixed v | Free _ => Free 0 end.
Definition erase_tdata (d : tdata) : tdata :=
  match d with
  | TMulti l => TMulti (map erase_idx l)
  | TArg n p _ => TArg n p 0
  | TCoef c _ => TCoef c 0
  | TLabel _ => TLabel 0
  | TRepr ps => TRepr [PLit (render ps)]
  | TGeo k m => TGeo k m
  end.
Fixpoint erase (a : tree) : tree :=
  match a with
  | Leaf tc d => Leaf tc (erase_tdata d)
  | Node tc ops => Node tc (map erase ops)
  end.

Lemma cmp_idx_eq i j : cmp_idx i j = Eq <-> erase_idx i = erase_idx j.
Proof.
  destruct i, j; simpl; try (split; intro H; try reflexivity; discriminate).
  rewrite N.compare_eq_iff. split; congruence.
Qed.

Lemma cmp_opt_eq p q : cmp_opt p q = Eq <-> p = q.
Proof.
  destruct p, q; simpl; try (split; intro H; try reflexivity; discriminate).
  rewrite N.compare_eq_iff. split; congruence.
Qed.

Lemma codes_inj s1 s2 : codes s1 = codes s2 -> s1 = s2.
Proof.
  unfold codes. intro H.
  rewrite <- (string_of_list_ascii_of_string s1), <- (string_of_list_ascii_of_string s2).
  f_equal. revert H. generalize (list_ascii_of_string s1) (list_ascii_of_string s2).
  intros l. induction l as [|x l IH]; intros [|y l0]; simpl; intro H; try reflexivity; try discriminate.
  injection H as H1 H2. f_equal; [| apply IH; exact H2].
  rewrite <- (ascii_N_embedding x), <- (ascii_N_embedding y), H1. reflexivity.
Qed.

Lemma cmp_str_eq s1 s2 : cmp_str s1 s2 = Eq <-> s1 = s2.
Proof.
  unfold cmp_str. rewrite (lex_eq_iff N.compare (fun x => x)) by (intros; apply N.compare_eq_iff).
  rewrite !map_id. split; [apply codes_inj | congruence].
Qed.

Lemma render_single s : render [PLit s] = s.
Proof. unfold render. simpl. reflexivity. Qed.

Lemma cmp_tdata_strict_eq d e : cmp_tdata true d e = Eq <-> erase_tdata d = erase_tdata e.
Proof.
  destruct d, e; simpl; try (split; intro H; try reflexivity; discriminate).
  - rewrite (lex_eq_iff cmp_idx erase_idx) by apply cmp_idx_eq. split; congruence.
  - rewrite then_eq_Eq, N.compare_eq_iff, cmp_opt_eq. split; [intros [-> ->]; reflexivity | intro H; injection H; auto].
  - rewrite N.compare_eq_iff. split; congruence.
  - rewrite cmp_str_eq. split; [intros ->; reflexivity | intro H; injection H; auto].
  - rewrite then_eq_Eq, cmp_str_eq, N.compare_eq_iff. split; [intros [-> ->]; reflexivity | intro H; injection H; auto].
Qed.

Lemma rzip_eq_map {A B} (c : A -> A -> comparison) (f : A -> B) l1 :
  Forall (fun x => forall y, c x y = Eq <-> f x = f y) l1 ->
  forall l2, length l1 = length l2 -> (rzip c l1 l2 = Eq <-> map f l1 = map f l2).
Proof.
  induction 1 as [|x l1 Hx _ IH]; destruct l2 as [|y l2]; simpl; intro HL; try discriminate.
  - split; reflexivity.
  - injection HL as HL. rewrite then_eq_Eq, Hx, (IH l2 HL). split.
    + intros [H1 H2]; congruence.
    + intro H; injection H; auto.
Qed.

Theorem C29_cmpS_eq_iff : forall a b, cmpS a b = Eq <-> erase a = erase b.
Proof.
  unfold cmpS. intro a. induction a as [ta da | ta oa IH] using tree_ind';
    intros [tb db | tb ob]; simpl.
  - rewrite then_eq_Eq, N.compare_eq_iff, cmp_tdata_strict_eq. split.
    + intros [-> ->]; reflexivity.
    + intro H; injection H; auto.
  - split; [| discriminate]. destruct (ta ?= tb); discriminate.
  - split; [| discriminate]. destruct (ta ?= tb); discriminate.
  - rewrite !then_eq_Eq, N.compare_eq_iff. split.
    + intros [-> [HL HR]]. apply Nat.compare_eq in HL.
      f_equal. apply (rzip_eq_map _ erase _ IH ob HL). exact HR.
    + intro H. injection H as H1 H2. split; [exact H1|].
      assert (HL : length oa = length ob).
      { rewrite <- (map_length erase oa), <- (map_length erase ob), H2. reflexivity. }
      split; [rewrite HL; apply Nat.compare_refl |].
      apply (rzip_eq_map _ erase _ IH ob HL). exact H2.
Qed.

Theorem C29_cmp_eq_iff_partial : forall a b,
  aligned a b = true -> (cmp a b = Eq <-> erase a = erase b).
Proof. intros a b H. rewrite (C29_cmp_agree _ _ H). apply C29_cmpS_eq_iff. Qed.

(** cmp_expr returns 0 for two multi-indices one of which is a prefix of the other *)
Theorem C29_cmp_eq_iff_refuted : forall tcM,
  let a := Leaf tcM (TMulti [Fixed 0]) in
  let b := Leaf tcM (TMulti [Fixed 0; Fixed 1]) in
  cmp a b = Eq /\ erase a <> erase b.
Proof. intros. unfold cmp, a, b. simpl. rewrite N.compare_refl. split; [reflexivity | discriminate]. Qed.

(** ** Sum.__new__ / Product.__new__ / Inner.__new__ : operand sorting *)

Definition is_lt (c : comparison) : bool := match c with Lt => true | _ => false end.

(** [sorted_expr((a, b))] = CPython's list.sort on two elements with key=cmp_to_key(cmp_expr):
    count_run asks once whether [K(b) < K(a)], i.e. [cmp_expr(b, a) < 0], and reverses if so.
    ([s] selects the comparator: false = the code as it is, true = with the multi-index repair.) *)
Definition sort2g (s : bool) (a b : tree) : tree * tree :=
  if is_lt (cmpg s b a) then (b, a) else (a, b).
Definition sort2 := sort2g false.

Theorem C29_sort2_swap : forall s a b, cmpg s a b <> Eq -> sort2g s a b = sort2g s b a.
Proof.
  intros s a b H. unfold sort2g. rewrite (C29_cmp_antisym s a b).
  destruct (cmpg s a b); simpl; try reflexivity. contradiction.
Qed.

Section Ctors.
  Variable s : bool.
  Variables tc_sum tc_prod tc_inner : N.
  (** Zero / ScalarValue recognisers, constant folding, Zero with merged free indices, Conj.__new__:
      arbitrary functions; only the stated commutation laws are used *)
  Variables is_zero is_scalar is_one : tree -> bool.
  Variables fold_add fold_mul zero_merge : tree -> tree -> tree.
  Variable mk_conj : tree -> tree.
  Hypothesis fold_add_comm : forall a b, fold_add a b = fold_add b a.
  Hypothesis fold_mul_comm : forall a b, fold_mul a b = fold_mul b a.
  Hypothesis zero_merge_comm : forall a b, zero_merge a b = zero_merge b a.

  Definition mk_sum (a b : tree) : tree :=
    if is_zero a then b else if is_zero b then a else
    if is_scalar a && is_scalar b then fold_add a b
    else if is_scalar a then Node tc_sum [a; b]
    else if is_scalar b then Node tc_sum [b; a]
    else let (x, y) := sort2g s a b in Node tc_sum [x; y].

  Definition mk_product (a b : tree) : tree :=
    if is_zero a || is_zero b then zero_merge a b else
    if is_scalar a && is_scalar b then fold_mul a b
    else if is_scalar a then (if is_one a then b else Node tc_prod [a; b])
    else if is_scalar b then (if is_one b then a else Node tc_prod [b; a])
    else let (x, y) := sort2g s a b in Node tc_prod [x; y].

  (** Inner.__new__ for non-scalar operands: [if (a, b) != tuple(sorted_expr((a, b))): return
      Conj(Inner(b, a))]; the recursion is modelled with fuel (it terminates by antisymmetry). *)
  Fixpoint mk_inner (fuel : nat) (a b : tree) : option tree :=
    match fuel with
    | O => None
    | S f =>
        if is_zero a || is_zero b then Some (zero_merge a b)
        else if is_lt (cmpg s b a) then option_map mk_conj (mk_inner f b a)
        else Some (Node tc_inner [a; b])
    end.

  Theorem C29_sum_swap : forall a b,
    cmpg s a b <> Eq -> is_zero a && is_zero b = false -> mk_sum a b = mk_sum b a.
  Proof.
    intros a b H Hz. unfold mk_sum. rewrite (C29_sort2_swap s a b H).
    destruct (is_zero a), (is_zero b); try reflexivity; try discriminate.
    rewrite (fold_add_comm a b). destruct (is_scalar a), (is_scalar b); reflexivity.
  Qed.

  Theorem C29_product_swap : forall a b, cmpg s a b <> Eq -> mk_product a b = mk_product b a.
  Proof.
    intros a b H. unfold mk_product. rewrite (C29_sort2_swap s a b H).
    rewrite (zero_merge_comm a b), (fold_mul_comm a b), (orb_comm (is_zero a)).
    destruct (is_zero b || is_zero a); try reflexivity.
    destruct (is_scalar a), (is_scalar b); reflexivity.
  Qed.

  (** both orders build the SAME Inner node; the order that disagrees with the canonical one is
      wrapped in Conj (inner(a,b) = conj(inner(b,a))), and two levels of recursion always suffice *)
  Theorem C29_inner_swap : forall a b,
    cmpg s a b = Lt -> is_zero a || is_zero b = false ->
    mk_inner 2 a b = Some (Node tc_inner [a; b]) /\
    mk_inner 2 b a = Some (mk_conj (Node tc_inner [a; b])).
  Proof.
    intros a b H Hz. pose proof (C29_cmp_antisym s a b) as Ha.
    rewrite H in Ha. simpl in Ha. simpl. rewrite Hz, (orb_comm (is_zero b)), Hz, Ha, H. simpl.
    split; reflexivity.
  Qed.

  Theorem C29_inner_terminates : forall a b, mk_inner 2 a b <> None.
  Proof.
    intros a b. pose proof (C29_cmp_antisym s b a) as Ha. simpl.
    destruct (is_zero a || is_zero b) eqn:Hz; [discriminate|].
    destruct (cmpg s b a) eqn:Hb; simpl; try discriminate.
    rewrite (orb_comm (is_zero b)), Hz. simpl in Ha. rewrite Ha. simpl. discriminate.
  Qed.
End Ctors.

(** ** executable checkers used by the generated correspondence files (coq/Gen/C29_*.v) *)

Definition tc_of (t : tree) : N := match t with Leaf tc _ | Node tc _ => tc end.
Definition tc_in (l : list N) (t : tree) : bool := existsb (N.eqb (tc_of t)) l.

(** a pair case: the real cmp_expr(a,b) and cmp_expr(b,a) (as Lt/Eq/Gt for -1/0/1) equal the model's *)
Definition check_pair (s : bool) (a b : tree) (rab rba : comparison) : bool :=
  ceqb (cmpg s a b) rab && ceqb (cmpg s b a) rba.

Definition triple_aligned (a b c : tree) : bool := aligned a b && aligned b c && aligned a c.

(** a triple case: the real results equal the model's, the harness' class flag (aligned) is the
    model's, and (redundantly with the theorems) aligned triples are consistent *)
Definition check_triple (s : bool) (a b c : tree) (rab rbc rac : comparison) (al : bool) : bool :=
  ceqb (cmpg s a b) rab && ceqb (cmpg s b c) rbc && ceqb (cmpg s a c) rac &&
  Bool.eqb (triple_aligned a b c) al &&
  (if s then t3 (cmpg s a b) (cmpg s b c) (cmpg s a c)
   else implb al (t3 (cmpg s a b) (cmpg s b c) (cmpg s a c))).

(** the constructors on operands that are not Zero (and not both literals; no literal 1) *)
Definition sum_model (s : bool) (tcS : N) (scalars : list N) (a b : tree) : tree :=
  mk_sum s tcS (fun _ => false) (tc_in scalars) (fun a _ => a) a b.
Definition product_model (s : bool) (tcP : N) (scalars : list N) (a b : tree) : tree :=
  mk_product s tcP (fun _ => false) (tc_in scalars) (fun _ => false) (fun a _ => a) (fun a _ => a) a b.
Definition inner_model (s : bool) (tcI tcC : N) (a b : tree) : option tree :=
  mk_inner s tcI (fun _ => false) (fun a _ => a) (fun t => Node tcC [t]) 2 a b.

Print Assumptions C29_cmp_antisym.
Print Assumptions C29_cmpS_consistent.
Print Assumptions C29_cmp_agree.
Print Assumptions C29_cmp_consistent_partial.
Print Assumptions C29_cmp_consistent_equal_length.
Print Assumptions C29_cmp_consistent_refuted.
Print Assumptions C29_cmpS_eq_iff.
Print Assumptions C29_cmp_eq_iff_partial.
Print Assumptions C29_cmp_eq_iff_refuted.
Print Assumptions C29_sort2_swap.
Print Assumptions C29_sum_swap.
Print Assumptions C29_product_swap.
Print Assumptions C29_inner_swap.
Print Assumptions C29_inner_terminates.
