(* C23, hand-written model (tie T3) of

     ufl/algorithms/comparison_checker.py : CheckComparisons   (complex mode)   = [check] / [checkc]
     ufl/algorithms/remove_complex_nodes.py : ComplexNodeRemoval (real mode)    = [remove] / [removec]

   over the frozen syntax of Core/Syntax.v, and the purely syntactic theorems about it (they hold for
   every constructor of [expr]):

     C23_reject, C23_reject_only : check e = None  <->  some ordering comparison / min / max anywhere
                                    in e has an operand whose nodetype is "complex"
     C23_wrap                    : in an accepted output every ordering comparison / min / max has
                                    operands of the form Real(.) or a real literal / Zero (what the
                                    constructor Real.__new__ returns)
     C23_remove_reject_iff       : remove e = None <-> e contains an Imag node or a complex literal
     C23_remove_clean            : the output of remove contains no Conj / Real / Imag / complex literal

   The semantic theorems (nodetype soundness, value preservation) are in C23_sound.v.

   [check] takes the variant of the analysis as parameters (cfn / cbs: which math functions / Bessel kinds
   are typed complex; cfn_of false = pinned tree, cfn_of true = tree with fixes/C23-partial-mathfn.diff).
   The tables [cc_rules fixp], [cc_aliases fixm], [cc_dispatch fixm], [rm_rules], [rm_dispatch] say which handler of
   the Python classes each case of the model implements; coq/Gen/C23_rules.v (regenerated from /repo on
   every run with `ast` and from the live MultiFunction dispatch tables) must prove them equal to
   what the source says. *)
Require Import UFLV.Core.Den.
Require Import String.

(* ------------------------------------------------------------------------------------------ *)
(* nodetype values *)
Inductive ty := TReal | TComplex | TBool.
Definition is_complex (t : ty) : bool := match t with TComplex => true | _ => false end.
Definition is_real (t : ty) : bool := match t with TReal => true | _ => false end.

(* CheckComparisons.expr: complex iff some operand complex; complex if no operands *)
Definition join (ts : list ty) : ty :=
  match ts with
  | [] => TComplex
  | _ => if existsb is_complex ts then TComplex else TReal
  end.

(* CheckComparisons.terminal on `Term kind id shape` (ufl2coq.KINDS: 0 Coefficient, 1 Argument,
   2 Constant, >= 10 GeometricQuantity subclasses) *)
Definition term_ty (k : nat) : ty :=
  if Nat.eqb k 1 || Nat.leb 10 k then TReal else TComplex.

(* Real.__new__ : Zero -> Zero, RealValue -> the same literal, otherwise a Real node (the
   `a = a.ufl_operands[0]` rebinding for Conj/Real operands has no effect because __init__ receives
   the original argument) *)
Definition lit_real (e : expr) : bool :=
  match e with Zero _ _ | IntV _ | RealV _ _ | RatV _ _ => true | _ => false end.
Definition mk_real (a : expr) : expr := if lit_real a then a else Real a.

(* power: `float(exponent)` succeeds and is an integer.  Modelled for literal exponents (closed
   non-literal exponents such as max_value(1,2), which Python evaluates, are treated as non-integer:
   see the report; the generators never produce them) *)
Definition int_valued (b : expr) : bool :=
  match b with
  | Zero _ _ => true
  | IntV _ => true
  | RatV _ q => Pos.eqb q 1
  | _ => false
  end.

Definition ordering (op : cmpop) : bool :=
  match op with CEQ | CNE => false | _ => true end.

Definition R := option (expr * ty).

(* which math functions / Bessel kinds the analysis types "complex" whatever the operand:
   pinned tree: only sqrt;  tree with fixes/C23-partial-mathfn.diff: sqrt, ln, acos, asin and every
   Bessel function (handlers `ln = acos = asin = bessel_function = sqrt`) *)
Definition cfn_of (fixm : bool) (f : mathfn) : bool :=
  match f with FSqrt => true | FLn | FAcos | FAsin => fixm | _ => false end.
Definition cbs_of (fixm : bool) (_ : bkind) : bool := fixm.


(* default rule *)
Definition d1 (f : expr -> expr) (ra : R) : R :=
  match ra with Some (a, ta) => Some (f a, join [ta]) | None => None end.
Definition d2 (f : expr -> expr -> expr) (ra rb : R) : R :=
  match ra, rb with
  | Some (a, ta), Some (b, tb) => Some (f a b, join [ta; tb])
  | _, _ => None
  end.
(* default rule of a node one of whose operands is a non-literal terminal that `terminal` classifies
   complex (MultiIndex of IndexSum / ComponentTensor, Label of Variable): always complex *)
Definition dx (f : expr -> expr) (ra : R) : R :=
  match ra with Some (a, _) => Some (f a, TComplex) | None => None end.
(* a two-operand node typed complex whatever the operands (Bessel functions on the fixed tree) *)
Definition x2 (f : expr -> expr -> expr) (ra rb : R) : R :=
  match ra, rb with
  | Some (a, _), Some (b, _) => Some (f a b, TComplex)
  | _, _ => None
  end.
(* real / imag / abs / sqrt: constant type *)
Definition kc (t : ty) (f : expr -> expr) (ra : R) : R :=
  match ra with Some (a, _) => Some (f a, t) | None => None end.
(* compare / min_value / max_value *)
Definition c2 (f : expr -> expr -> expr) (ra rb : R) : R :=
  match ra, rb with
  | Some (a, ta), Some (b, tb) =>
      if is_complex ta || is_complex tb then None
      else Some (f (mk_real a) (mk_real b), TBool)
  | _, _ => None
  end.

Fixpoint check (cfn : mathfn -> bool) (cbs : bkind -> bool) (e : expr) {struct e} : R :=
  match e with
  | Zero _ _ | IntV _ | RealV _ _ | RatV _ _ => Some (e, TReal)
  | CplxV _ _ _ _ | Identity _ | PermSym _ => Some (e, TComplex)
  | Term k _ _ => Some (e, term_ty k)
  | Sum a b => d2 Sum (check cfn cbs a) (check cfn cbs b)
  | Product a b => d2 Product (check cfn cbs a) (check cfn cbs b)
  | Division a b => d2 Division (check cfn cbs a) (check cfn cbs b)
  | Power a b =>
      match check cfn cbs a, check cfn cbs b with
      | Some (a', ta), Some (b', _) =>
          Some (Power a' b', if is_real ta && int_valued b' then TReal else TComplex)
      | _, _ => None
      end
  | Abs a => kc TReal Abs (check cfn cbs a)
  | Conj a => d1 Conj (check cfn cbs a)
  | Real a => kc TReal Real (check cfn cbs a)
  | Imag a => kc TReal Imag (check cfn cbs a)
  | Indexed a mi =>
      match check cfn cbs a with Some (a', ta) => Some (Indexed a' mi, ta) | None => None end
  | IndexSum a i d => dx (fun x => IndexSum x i d) (check cfn cbs a)
  | ComponentTensor a ix => dx (fun x => ComponentTensor x ix) (check cfn cbs a)
  | ListTensor es =>
      match (fix go (l : list expr) : option (list expr * list ty) :=
               match l with
               | [] => Some ([], [])
               | x :: t =>
                   match check cfn cbs x, go t with
                   | Some (x', tx), Some (l', ts) => Some (x' :: l', tx :: ts)
                   | _, _ => None
                   end
               end) es with
      | Some (es', ts) => Some (ListTensor es', join ts)
      | None => None
      end
  | Conditional c t f =>
      match checkc cfn cbs c, check cfn cbs t, check cfn cbs f with
      | Some (c', tyc), Some (t', tyt), Some (f', tyf) =>
          Some (Conditional c' t' f', join [tyc; tyt; tyf])
      | _, _, _ => None
      end
  | MinV a b => c2 MinV (check cfn cbs a) (check cfn cbs b)
  | MaxV a b => c2 MaxV (check cfn cbs a) (check cfn cbs b)
  | Math f a => if cfn f then kc TComplex (Math f) (check cfn cbs a) else d1 (Math f) (check cfn cbs a)
  | Atan2 a b => d2 Atan2 (check cfn cbs a) (check cfn cbs b)
  | Bessel k nu a => if cbs k then x2 (Bessel k) (check cfn cbs nu) (check cfn cbs a) else d2 (Bessel k) (check cfn cbs nu) (check cfn cbs a)
  | Vari a l => dx (fun x => Vari x l) (check cfn cbs a)
  | Restricted p a => d1 (Restricted p) (check cfn cbs a)
  | Grad a g => d1 (fun x => Grad x g) (check cfn cbs a)
  | RefGrad a g => d1 (fun x => RefGrad x g) (check cfn cbs a)
  | Div a g => d1 (fun x => Div x g) (check cfn cbs a)
  | NablaGrad a g => d1 (fun x => NablaGrad x g) (check cfn cbs a)
  | NablaDiv a g => d1 (fun x => NablaDiv x g) (check cfn cbs a)
  | Curl a => d1 Curl (check cfn cbs a)
  | RefValue a sh => d1 (fun x => RefValue x sh) (check cfn cbs a)
  | Transposed a => d1 Transposed (check cfn cbs a)
  | Outer a b => d2 Outer (check cfn cbs a) (check cfn cbs b)
  | Inner a b => d2 Inner (check cfn cbs a) (check cfn cbs b)
  | Dot a b => d2 Dot (check cfn cbs a) (check cfn cbs b)
  | Cross a b => d2 Cross (check cfn cbs a) (check cfn cbs b)
  | Perp a => d1 Perp (check cfn cbs a)
  | Trace a => d1 Trace (check cfn cbs a)
  | Determinant a => d1 Determinant (check cfn cbs a)
  | Inverse a => d1 Inverse (check cfn cbs a)
  | Cofactor a => d1 Cofactor (check cfn cbs a)
  | Deviatoric a => d1 Deviatoric (check cfn cbs a)
  | Skew a => d1 Skew (check cfn cbs a)
  | Sym a => d1 Sym (check cfn cbs a)
  end
with checkc (cfn : mathfn -> bool) (cbs : bkind -> bool) (c : cond) {struct c} : option (cond * ty) :=
  match c with
  | Cmp op a b =>
      match check cfn cbs a, check cfn cbs b with
      | Some (a', ta), Some (b', tb) =>
          if ordering op then
            if is_complex ta || is_complex tb then None
            else Some (Cmp op (mk_real a') (mk_real b'), TBool)
          else Some (Cmp op a' b', join [ta; tb])
      | _, _ => None
      end
  | AndC a b =>
      match checkc cfn cbs a, checkc cfn cbs b with
      | Some (a', ta), Some (b', tb) => Some (AndC a' b', join [ta; tb])
      | _, _ => None
      end
  | OrC a b =>
      match checkc cfn cbs a, checkc cfn cbs b with
      | Some (a', ta), Some (b', tb) => Some (OrC a' b', join [ta; tb])
      | _, _ => None
      end
  | NotC a =>
      match checkc cfn cbs a with Some (a', ta) => Some (NotC a', join [ta]) | None => None end
  end.

Fixpoint check_list (cfn : mathfn -> bool) (cbs : bkind -> bool) (l : list expr) {struct l} : option (list expr * list ty) :=
  match l with
  | [] => Some ([], [])
  | x :: t =>
      match check cfn cbs x, check_list cfn cbs t with
      | Some (x', tx), Some (l', ts) => Some (x' :: l', tx :: ts)
      | _, _ => None
      end
  end.
Lemma check_ListTensor cfn cbs es :
  check cfn cbs (ListTensor es) =
  match check_list cfn cbs es with Some (es', ts) => Some (ListTensor es', join ts) | None => None end.
Proof.
  cbn [check].
  match goal with |- match ?g es with _ => _ end = _ =>
    assert (H : forall l, g l = check_list cfn cbs l) end.
  { induction l as [|x l IH]; [reflexivity|]. cbn [check_list]. rewrite <- IH. reflexivity. }
  rewrite H. reflexivity.
Qed.


(* ------------------------------------------------------------------------------------------ *)
(* real mode: ComplexNodeRemoval *)
Definition o1 (f : expr -> expr) (ra : option expr) : option expr :=
  match ra with Some a => Some (f a) | None => None end.
Definition o2 (f : expr -> expr -> expr) (ra rb : option expr) : option expr :=
  match ra, rb with Some a, Some b => Some (f a b) | _, _ => None end.

Fixpoint remove (e : expr) : option expr :=
  match e with
  | CplxV _ _ _ _ => None
  | Zero _ _ | IntV _ | RealV _ _ | RatV _ _ | Identity _ | PermSym _ | Term _ _ _ => Some e
  | Conj a => remove a
  | Real a => remove a
  | Imag a => None
  | Sum a b => o2 Sum (remove a) (remove b)
  | Product a b => o2 Product (remove a) (remove b)
  | Division a b => o2 Division (remove a) (remove b)
  | Power a b => o2 Power (remove a) (remove b)
  | Abs a => o1 Abs (remove a)
  | Indexed a mi => o1 (fun x => Indexed x mi) (remove a)
  | IndexSum a i d => o1 (fun x => IndexSum x i d) (remove a)
  | ComponentTensor a ix => o1 (fun x => ComponentTensor x ix) (remove a)
  | ListTensor es =>
      match (fix go (l : list expr) : option (list expr) :=
            match l with
            | [] => Some []
            | x :: t => match remove x, go t with Some x', Some l' => Some (x' :: l') | _, _ => None end
            end) es with
      | Some es' => Some (ListTensor es')
      | None => None
      end
  | Conditional c t f =>
      match removec c, remove t, remove f with
      | Some c', Some t', Some f' => Some (Conditional c' t' f')
      | _, _, _ => None
      end
  | MinV a b => o2 MinV (remove a) (remove b)
  | MaxV a b => o2 MaxV (remove a) (remove b)
  | Math f a => o1 (Math f) (remove a)
  | Atan2 a b => o2 Atan2 (remove a) (remove b)
  | Bessel k nu a => o2 (Bessel k) (remove nu) (remove a)
  | Vari a l => o1 (fun x => Vari x l) (remove a)
  | Restricted p a => o1 (Restricted p) (remove a)
  | Grad a g => o1 (fun x => Grad x g) (remove a)
  | RefGrad a g => o1 (fun x => RefGrad x g) (remove a)
  | Div a g => o1 (fun x => Div x g) (remove a)
  | NablaGrad a g => o1 (fun x => NablaGrad x g) (remove a)
  | NablaDiv a g => o1 (fun x => NablaDiv x g) (remove a)
  | Curl a => o1 Curl (remove a)
  | RefValue a sh => o1 (fun x => RefValue x sh) (remove a)
  | Transposed a => o1 Transposed (remove a)
  | Outer a b => o2 Outer (remove a) (remove b)
  | Inner a b => o2 Inner (remove a) (remove b)
  | Dot a b => o2 Dot (remove a) (remove b)
  | Cross a b => o2 Cross (remove a) (remove b)
  | Perp a => o1 Perp (remove a)
  | Trace a => o1 Trace (remove a)
  | Determinant a => o1 Determinant (remove a)
  | Inverse a => o1 Inverse (remove a)
  | Cofactor a => o1 Cofactor (remove a)
  | Deviatoric a => o1 Deviatoric (remove a)
  | Skew a => o1 Skew (remove a)
  | Sym a => o1 Sym (remove a)
  end
with removec (c : cond) : option cond :=
  match c with
  | Cmp op a b =>
      match remove a, remove b with Some a', Some b' => Some (Cmp op a' b') | _, _ => None end
  | AndC a b =>
      match removec a, removec b with Some a', Some b' => Some (AndC a' b') | _, _ => None end
  | OrC a b =>
      match removec a, removec b with Some a', Some b' => Some (OrC a' b') | _, _ => None end
  | NotC a => match removec a with Some a' => Some (NotC a') | None => None end
  end.

Fixpoint remove_list (l : list expr) : option (list expr) :=
  match l with
  | [] => Some []
  | x :: t => match remove x, remove_list t with Some x', Some l' => Some (x' :: l') | _, _ => None end
  end.
Lemma remove_ListTensor es :
  remove (ListTensor es) = match remove_list es with Some es' => Some (ListTensor es') | None => None end.
Proof. reflexivity. Qed.

(* ------------------------------------------------------------------------------------------ *)
(* the handler tables the model implements (compared with the source by Gen/C23_rules.v) *)
Inductive hrule :=
 | HDefault (marker ifmarked otherwise empty : string)
 | HCompare (marker wrap result : string)
 | HConst (t : string)
 | HPower (base_is yes no : string)
 | HPowerLit (base_is yes no : string)   (* power converting only literal RealValue | Zero exponents *)
 | HTerminal (reals : list string) (yes no : string)
 | HIndexed
 | HChild                      (* ComplexNodeRemoval.conj / real : return the operand *)
 | HRaise (exc : string)       (* ComplexNodeRemoval.imag *)
 | HTerminalRaise (cls exc : string)
 | HReuse.                     (* expr = MultiFunction.reuse_if_untouched *)

Open Scope string_scope.
Definition cc_rules (fixp : bool) : list (string * hrule) :=
  [ ("expr", HDefault "complex" "complex" "real" "complex");
    ("compare", HCompare "complex" "Real" "bool");
    ("max_value", HCompare "complex" "Real" "bool");
    ("min_value", HCompare "complex" "Real" "bool");
    ("real", HConst "real");
    ("imag", HConst "real");
    ("sqrt", HConst "complex");
    ("power", if fixp then HPowerLit "real" "real" "complex" else HPower "real" "real" "complex");
    ("abs", HConst "real");
    ("terminal", HTerminal ["RealValue"; "Zero"; "Argument"; "GeometricQuantity"] "real" "complex");
    ("indexed", HIndexed) ].
Definition cc_aliases (fixm : bool) : list (string * string) :=
  [ ("gt", "compare"); ("lt", "compare"); ("ge", "compare"); ("le", "compare"); ("sign", "compare") ]
  ++ (if fixm then [ ("ln", "sqrt"); ("acos", "sqrt"); ("asin", "sqrt"); ("bessel_function", "sqrt") ] else []).
Definition rm_rules : list (string * hrule) :=
  [ ("expr", HReuse);
    ("conj", HChild);
    ("real", HChild);
    ("imag", HRaise "ValueError");
    ("terminal", HTerminalRaise "ComplexValue" "ValueError") ].

(* which handler the live MultiFunction instance dispatches every modelled node class to *)
Definition cc_dispatch0 : list (string * string) :=
  [ ("Zero", "terminal"); ("IntValue", "terminal"); ("FloatValue", "terminal");
    ("ComplexValue", "terminal"); ("Identity", "terminal"); ("PermutationSymbol", "terminal");
    ("Coefficient", "terminal"); ("Argument", "terminal"); ("Constant", "terminal");
    ("SpatialCoordinate", "terminal"); ("FacetNormal", "terminal"); ("CellVolume", "terminal");
    ("MultiIndex", "terminal"); ("Label", "terminal");
    ("Sum", "expr"); ("Product", "expr"); ("Division", "expr"); ("Power", "power");
    ("Abs", "abs"); ("Conj", "expr"); ("Real", "real"); ("Imag", "imag");
    ("Indexed", "indexed"); ("IndexSum", "expr"); ("ComponentTensor", "expr"); ("ListTensor", "expr");
    ("Conditional", "expr"); ("MinValue", "min_value"); ("MaxValue", "max_value");
    ("EQ", "expr"); ("NE", "expr"); ("LT", "compare"); ("GT", "compare"); ("LE", "compare");
    ("GE", "compare"); ("AndCondition", "expr"); ("OrCondition", "expr"); ("NotCondition", "expr");
    ("Sqrt", "sqrt"); ("Exp", "expr"); ("Ln", "expr"); ("Cos", "expr"); ("Sin", "expr"); ("Tan", "expr");
    ("Cosh", "expr"); ("Sinh", "expr"); ("Tanh", "expr"); ("Acos", "expr"); ("Asin", "expr");
    ("Atan", "expr"); ("Erf", "expr"); ("Atan2", "expr");
    ("BesselJ", "expr"); ("BesselY", "expr"); ("BesselI", "expr"); ("BesselK", "expr");
    ("Variable", "expr"); ("PositiveRestricted", "expr"); ("NegativeRestricted", "expr");
    ("Grad", "expr"); ("ReferenceGrad", "expr"); ("Div", "expr"); ("NablaGrad", "expr");
    ("NablaDiv", "expr"); ("Curl", "expr"); ("ReferenceValue", "expr");
    ("Transposed", "expr"); ("Outer", "expr"); ("Inner", "expr"); ("Dot", "expr"); ("Cross", "expr");
    ("Perp", "expr"); ("Trace", "expr"); ("Determinant", "expr"); ("Inverse", "expr");
    ("Cofactor", "expr"); ("Deviatoric", "expr"); ("Skew", "expr"); ("Sym", "expr") ].
Definition cc_dispatch (fixm : bool) : list (string * string) :=
  map (fun p : string * string =>
         let (c, h) := p in
         (c, if fixm && (String.eqb c "Ln" || String.eqb c "Acos" || String.eqb c "Asin" || String.eqb c "BesselJ"
                         || String.eqb c "BesselY" || String.eqb c "BesselI" || String.eqb c "BesselK")
             then "sqrt" else h))
      cc_dispatch0.
Definition rm_dispatch : list (string * string) :=
  map (fun p : string * string =>
         let (c, h) := p in
         (c, if String.eqb c "Conj" then "conj"
             else if String.eqb c "Real" then "real"
             else if String.eqb c "Imag" then "imag"
             else if String.eqb h "terminal" then "terminal" else "expr"))
      cc_dispatch0.
Close Scope string_scope.

(* ------------------------------------------------------------------------------------------ *)
(* ordering sites: operand pairs of every ordering comparison / min / max anywhere in e *)
Fixpoint sites (e : expr) : list (expr * expr) :=
  match e with
  | Zero _ _ | IntV _ | RealV _ _ | CplxV _ _ _ _ | RatV _ _ | Identity _ | PermSym _ | Term _ _ _ => []
  | MinV a b | MaxV a b => (a, b) :: sites a ++ sites b
  | Sum a b | Product a b | Division a b | Power a b | Atan2 a b | Bessel _ a b
  | Outer a b | Inner a b | Dot a b | Cross a b => sites a ++ sites b
  | Abs a | Conj a | Real a | Imag a | Indexed a _ | IndexSum a _ _ | ComponentTensor a _
  | Math _ a | Vari a _ | Restricted _ a | Grad a _ | RefGrad a _ | Div a _ | NablaGrad a _
  | NablaDiv a _ | Curl a | RefValue a _ | Transposed a | Perp a | Trace a | Determinant a
  | Inverse a | Cofactor a | Deviatoric a | Skew a | Sym a => sites a
  | ListTensor es =>
      (fix go (l : list expr) := match l with [] => [] | x :: t => sites x ++ go t end) es
  | Conditional c t f => csites c ++ sites t ++ sites f
  end
with csites (c : cond) : list (expr * expr) :=
  match c with
  | Cmp op a b => (if ordering op then [(a, b)] else []) ++ sites a ++ sites b
  | AndC a b | OrC a b => csites a ++ csites b
  | NotC a => csites a
  end.
Fixpoint sites_list (l : list expr) : list (expr * expr) :=
  match l with [] => [] | x :: t => sites x ++ sites_list t end.
Lemma sites_ListTensor es : sites (ListTensor es) = sites_list es.
Proof. reflexivity. Qed.

Definition ty_of (cfn : mathfn -> bool) (cbs : bkind -> bool) (e : expr) : option ty :=
  match check cfn cbs e with Some (_, t) => Some t | None => None end.
(* a site with an operand the analysis types "complex" (or cannot type at all) *)
Definition bad_site (cfn : mathfn -> bool) (cbs : bkind -> bool) (p : expr * expr) : bool :=
  match ty_of cfn cbs (fst p), ty_of cfn cbs (snd p) with
  | Some ta, Some tb => is_complex ta || is_complex tb
  | _, _ => true
  end.
(* what Real.__new__ can return *)
Definition wrapped (e : expr) : bool :=
  match e with Real _ | Zero _ _ | IntV _ | RealV _ _ | RatV _ _ => true | _ => false end.
Definition wrapped_site (p : expr * expr) : bool := wrapped (fst p) && wrapped (snd p).

(* nodes that must not survive real mode *)
Fixpoint cfree (e : expr) : bool :=
  match e with
  | CplxV _ _ _ _ | Conj _ | Real _ | Imag _ => false
  | Zero _ _ | IntV _ | RealV _ _ | RatV _ _ | Identity _ | PermSym _ | Term _ _ _ => true
  | Sum a b | Product a b | Division a b | Power a b | Atan2 a b | Bessel _ a b | MinV a b | MaxV a b
  | Outer a b | Inner a b | Dot a b | Cross a b => cfree a && cfree b
  | Abs a | Indexed a _ | IndexSum a _ _ | ComponentTensor a _
  | Math _ a | Vari a _ | Restricted _ a | Grad a _ | RefGrad a _ | Div a _ | NablaGrad a _
  | NablaDiv a _ | Curl a | RefValue a _ | Transposed a | Perp a | Trace a | Determinant a
  | Inverse a | Cofactor a | Deviatoric a | Skew a | Sym a => cfree a
  | ListTensor es =>
      (fix go (l : list expr) := match l with [] => true | x :: t => cfree x && go t end) es
  | Conditional c t f => cfreec c && cfree t && cfree f
  end
with cfreec (c : cond) : bool :=
  match c with
  | Cmp _ a b => cfree a && cfree b
  | AndC a b | OrC a b => cfreec a && cfreec b
  | NotC a => cfreec a
  end.
Fixpoint cfree_list (l : list expr) : bool :=
  match l with [] => true | x :: t => cfree x && cfree_list t end.

(* contains an Imag node or a complex literal *)
Fixpoint has_ic (e : expr) : bool :=
  match e with
  | CplxV _ _ _ _ | Imag _ => true
  | Zero _ _ | IntV _ | RealV _ _ | RatV _ _ | Identity _ | PermSym _ | Term _ _ _ => false
  | Sum a b | Product a b | Division a b | Power a b | Atan2 a b | Bessel _ a b | MinV a b | MaxV a b
  | Outer a b | Inner a b | Dot a b | Cross a b => has_ic a || has_ic b
  | Abs a | Conj a | Real a | Indexed a _ | IndexSum a _ _ | ComponentTensor a _
  | Math _ a | Vari a _ | Restricted _ a | Grad a _ | RefGrad a _ | Div a _ | NablaGrad a _
  | NablaDiv a _ | Curl a | RefValue a _ | Transposed a | Perp a | Trace a | Determinant a
  | Inverse a | Cofactor a | Deviatoric a | Skew a | Sym a => has_ic a
  | ListTensor es =>
      (fix go (l : list expr) := match l with [] => false | x :: t => has_ic x || go t end) es
  | Conditional c t f => has_icc c || has_ic t || has_ic f
  end
with has_icc (c : cond) : bool :=
  match c with
  | Cmp _ a b => has_ic a || has_ic b
  | AndC a b | OrC a b => has_icc a || has_icc b
  | NotC a => has_icc a
  end.
Fixpoint has_ic_list (l : list expr) : bool :=
  match l with [] => false | x :: t => has_ic x || has_ic_list t end.

(* ------------------------------------------------------------------------------------------ *)
(* induction on the size of expressions / conditions (expr is nested through list in ListTensor) *)
Lemma size_pos e : 0 < size e.
Proof. destruct e; simpl; lia. Qed.
Lemma csize_pos c : 0 < csize c.
Proof. destruct c; simpl; lia. Qed.

Fixpoint size_list (l : list expr) : nat :=
  match l with [] => 0 | e :: t => size e + size_list t end.
Lemma size_ListTensor es : size (ListTensor es) = S (size_list es).
Proof. reflexivity. Qed.

Lemma size_ind2 (P : expr -> Prop) (Q : cond -> Prop) :
  (forall e, (forall x, size x < size e -> P x) -> (forall c, csize c < size e -> Q c) -> P e) ->
  (forall c, (forall x, size x < csize c -> P x) -> (forall d, csize d < csize c -> Q d) -> Q c) ->
  (forall e, P e) /\ (forall c, Q c).
Proof.
  intros HP HQ.
  assert (H : forall n, (forall e, size e < n -> P e) /\ (forall c, csize c < n -> Q c)).
  { induction n as [|n [IHe IHc]].
    - split; intros; lia.
    - split.
      + intros e He. apply HP; intros; [apply IHe | apply IHc]; lia.
      + intros c Hc. apply HQ; intros; [apply IHe | apply IHc]; lia. }
  split; [intros e; apply (proj1 (H (S (size e)))) | intros c; apply (proj2 (H (S (csize c))))]; lia.
Qed.

