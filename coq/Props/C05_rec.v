(* C05 - soundness of the RECURSIVE executable models of Props/C05_model.v (the same functions that
   the structural correspondence compares with the implementation):

     mk_index_sum  (IndexSum.__new__: zero folding, factors moved out of the sum, recursively)
     mk_indexed    (Indexed.__new__ with the _simplify_indexed hooks of Zero, Sum, IndexSum,
                    ListTensor, ComponentTensor, recursively)

   for all operands, all fuel, all index valuations, all UFL algebras:  the value of the result is the
   value of the raw node, provided the side conditions collected along the recursion hold
   ([factor_ok], [ix_ok]).  These side conditions are exactly the hygiene conditions the Python code
   does not check (summation index not in the multiindex; factors moved out of a sum / tensors
   re-indexed through a ComponentTensor do not depend on the bound indices).  The ListTensor[k]
   pre-step of ComponentTensor._simplify_indexed is excluded ([ix_ok] is False there); its one-step
   soundness is C05_indexed_ct_list_tensor. *)
Require Import UFLV.Core.Den.
Require Import UFLV.Props.C05_model.
Require Import Lia.

Section Rec.
Variable A : ualg.
Add Field AfC05r : (kfield A).
Open Scope K_scope.
Variable env : side -> nat -> nat -> list nat -> A.
Variables D DX : nat -> A -> A.
Variable ki : A.
Notation DEN := (@den A env D DX ki).
Variable le : expr -> expr -> bool.
Variable ffold : nat -> expr -> expr -> expr.
Variables fx_is fx_ct fx_cs : bool.      (* repair flags of the modelled tree: the theorems hold for all values *)
Notation INDEP := (indep A env D DX ki).

(* value part of Product.__new__ without any well-formedness of the free-index lists *)
Lemma mk_product_value a b e :
  fp_exact A env D DX ki ffold 1 kmul ->
  mk_product le ffold a b = Some e ->
  forall s rho, DEN s rho e [] = DEN s rho a [] * DEN s rho b [].
Proof.
  intros FP. unfold mk_product.
  destruct (shape_eq_dec (shape a) []) as [Ea|]; [|discriminate].
  destruct (shape_eq_dec (shape b) []) as [Eb|]; [|discriminate].
  intros H. inversion H as [H']. clear H H'.
  destruct (is_zero a) eqn:Za.
  { destruct (is_zero_inv a Za) as [sh [fi ->]]. cbn [orb]. intros. cbn [den]. ring. }
  destruct (is_zero b) eqn:Zb.
  { destruct (is_zero_inv b Zb) as [sh [fi ->]]. cbn [orb]. intros. cbn [den]. ring. }
  cbn [orb].
  destruct (is_lit a) eqn:La; destruct (is_lit b) eqn:Lb; cbn [andb].
  - destruct (int_of a) as [x|] eqn:Ia; [destruct (int_of b) as [y|] eqn:Ib|].
    + apply int_of_inv in Ia. apply int_of_inv in Ib. subst. intros. rewrite den_mk_int. cbn [den]. apply of_Z_mul.
    + destruct (FP a b La Lb) as [_ [_ V]]. intros. apply V.
    + destruct (FP a b La Lb) as [_ [_ V]]. intros. apply V.
  - destruct (is_one a) eqn:Oa; intros; cbn [den]; rewrite ?(is_one_den A env D DX ki a s rho [] Oa); ring.
  - destruct (is_one b) eqn:Ob; intros; cbn [den]; rewrite ?(is_one_den A env D DX ki b s rho [] Ob); ring.
  - destruct (le a b); intros; cbn [den]; ring.
Qed.

(* hygiene along the recursion of IndexSum.__new__: whenever a factor is moved out of the sum
   because the summation index is not among its free indices, its value must not depend on it *)
Fixpoint factor_ok (fuel : nat) (a : expr) (i : nat) : Prop :=
  match fuel with
  | O => True
  | S fuel' =>
      match a with
      | Product x y =>
          if negb (mem i (ids (fidx x))) then INDEP x i /\ factor_ok fuel' y i
          else if negb (mem i (ids (fidx y))) then INDEP y i /\ factor_ok fuel' x i
          else True
      | _ => True
      end
  end.

Theorem C05_index_sum_sound fuel : forall a i d e,
  fp_exact A env D DX ki ffold 1 kmul ->
  mk_index_sum le ffold fuel a i d = Some e -> factor_ok fuel a i ->
  forall s rho, DEN s rho e [] = DEN s rho (IndexSum a i d) [].
Proof.
  induction fuel as [|fuel IH]; intros a i d e FP H OK s rho; [discriminate|].
  simpl in H. destruct (negb (mem i (ids (fidx a)))); [discriminate|].
  destruct a; try (inversion H; reflexivity).
  - inversion H. cbn [den]. rewrite ksum_zero. reflexivity.
  - simpl in OK.
    destruct (negb (mem i (ids (fidx a1)))) eqn:E1.
    + destruct OK as [I1 OK2].
      destruct (mk_index_sum le ffold fuel a2 i d) as [y'|] eqn:R; [|discriminate].
      rewrite (mk_product_value _ _ _ FP H). rewrite (IH a2 i d y' FP R OK2).
      cbn [den]. rewrite <- ksum_scal. apply ksum_ext. intros k _. rewrite I1. reflexivity.
    + destruct (negb (mem i (ids (fidx a2)))) eqn:E2.
      * destruct OK as [I2 OK1].
        destruct (mk_index_sum le ffold fuel a1 i d) as [x'|] eqn:R; [|discriminate].
        rewrite (mk_product_value _ _ _ FP H). rewrite (IH a1 i d x' FP R OK1).
        cbn [den]. rewrite <- ksum_scal. apply ksum_ext. intros k _. rewrite I2. ring.
      * inversion H. reflexivity.
Qed.


Lemma mk_sum_value a b e :
  fp_exact A env D DX ki ffold 0 kadd ->
  mk_sum le ffold a b = Some e ->
  forall s rho c, DEN s rho e c = DEN s rho a c + DEN s rho b c.
Proof.
  intros FP H s rho c. destruct (C05_sum_sound A env D DX ki le ffold a b e FP H) as [_ [_ V]].
  rewrite V. reflexivity.
Qed.

Definition is_step1 (B : expr) : bool :=
  match B with Indexed (ListTensor _) [_] => true | _ => false end.

(* side conditions collected along the recursion of Indexed.__new__ / _simplify_indexed *)
Fixpoint ix_ok (fuel : nat) (a : expr) (mi : list idx) : Prop :=
  match fuel with
  | O => True
  | S fuel' =>
    match mi with
    | [] => True
    | m0 :: mi' =>
      match a with
      | Sum x y => ix_ok fuel' x mi /\ ix_ok fuel' y mi
      | IndexSum x i d =>
          if fx_is && mi_has i mi then True      (* repaired tree: the shortcut is refused, raw node *)
          else mi_has i mi = false /\ ix_ok fuel' x mi /\
               (forall x', mk_indexed le ffold fx_is fx_ct fx_cs fuel' x mi = Some x' -> factor_ok fuel' x' i)
      | ListTensor es =>
          match m0 with
          | Fixed k => match nth_error es k with Some sub => ix_ok fuel' sub mi' | None => True end
          | Free _ => True
          end
      | ComponentTensor B jj =>
          if is_step1 B then False          (* the ListTensor[k] pre-step is not covered here *)
          else match B with
               | Indexed C kk =>
                   if all_in jj kk && (negb fx_cs || disjointb jj (fidx C))
                   then (forall j, In j (ids jj) -> INDEP C j) /\ ix_ok fuel' C (map (subst_idx jj mi) kk)
                   else True
               | _ => True
               end
      | _ => True
      end
    end
  end.

Lemma nth_error_nth (es : list expr) k sub : nth_error es k = Some sub ->
  k < length es /\ nth k es (Zero [] []) = sub.
Proof.
  intros H. split.
  - apply nth_error_Some. congruence.
  - apply nth_error_nth. exact H.
Qed.

Theorem C05_indexed_sound fuel : forall a mi e,
  fp_exact A env D DX ki ffold 0 kadd -> fp_exact A env D DX ki ffold 1 kmul ->
  mk_indexed le ffold fx_is fx_ct fx_cs fuel a mi = Some e -> ix_ok fuel a mi ->
  forall s rho, DEN s rho e [] = DEN s rho (Indexed a mi) [].
Proof.
  induction fuel as [|fuel IH]; intros a mi e FP0 FP1 H OK s rho; [discriminate|].
  destruct mi as [|m0 mi']; [simpl in H; inversion H; subst; reflexivity|].
  destruct a; try (simpl in H; inversion H; subst; reflexivity).
  - (* Sum *)
    simpl in H. simpl in OK. destruct OK as [OK1 OK2].
    destruct (mk_indexed le ffold fx_is fx_ct fx_cs fuel a1 (m0 :: mi')) as [x'|] eqn:R1; [|discriminate].
    destruct (mk_indexed le ffold fx_is fx_ct fx_cs fuel a2 (m0 :: mi')) as [y'|] eqn:R2; [|discriminate].
    rewrite (mk_sum_value _ _ _ FP0 H). rewrite (IH _ _ _ FP0 FP1 R1 OK1), (IH _ _ _ FP0 FP1 R2 OK2).
    reflexivity.
  - (* IndexSum *)
    simpl in H. simpl in OK.
    destruct (fx_is && (match m0 with Fixed _ => false | Free j => Nat.eqb j i end || mi_has i mi')) eqn:G;
      [inversion H; reflexivity|].
    destruct OK as [NH [OK1 OKF]].
    destruct (mk_indexed le ffold fx_is fx_ct fx_cs fuel a (m0 :: mi')) as [x'|] eqn:R1; [|discriminate].
    rewrite (C05_index_sum_sound fuel x' i d e FP1 H (OKF x' eq_refl)).
    cbn [den]. apply ksum_ext. intros k _.
    rewrite (IH _ _ _ FP0 FP1 R1 OK1). cbn [den].
    rewrite (idxval_upd rho i k (m0 :: mi') NH). reflexivity.
  - (* ComponentTensor *)
    simpl in OK. destruct (is_step1 a) eqn:S1; [destruct OK|].
    cbn [mk_indexed] in H.
    match type of H with context [if negb ?c then _ else _] => destruct (negb c) end; [discriminate|].
    destruct a; try (inversion H; reflexivity).
    (* B = Indexed a mi *)
    assert (Hfin : (if all_in ix mi && (negb fx_cs || disjointb ix (fidx a)) then mk_indexed le ffold fx_is fx_ct fx_cs fuel a (map (subst_idx ix (m0 :: mi')) mi)
                    else Some (Indexed (ComponentTensor (Indexed a mi) ix) (m0 :: mi'))) = Some e).
    { destruct a; try exact H. destruct mi as [|kx [|? ?]]; try exact H. discriminate. }
    clear H. destruct (all_in ix mi && (negb fx_cs || disjointb ix (fidx a))) eqn:AI; [|inversion Hfin; reflexivity].
    destruct OK as [IND OKC].
    rewrite (IH _ _ _ FP0 FP1 Hfin OKC).
    destruct (C05_indexed_ct_partial A env D DX ki a mi ix (m0 :: mi') IND) as [_ V]. apply V.
  - (* ListTensor *)
    simpl in H. simpl in OK. destruct m0 as [k|j]; [|inversion H; reflexivity].
    destruct (nth_error es k) as [sub|] eqn:N; [|discriminate].
    destruct (nth_error_nth es k sub N) as [Hk Hn].
    rewrite (IH _ _ _ FP0 FP1 H OK). cbn [den map idxval].
    rewrite nth_den_nth by exact Hk. rewrite Hn. reflexivity.
Qed.

End Rec.
Print Assumptions C05_index_sum_sound.
Print Assumptions C05_indexed_sound.
