(* C18: the estimated degree bounds the polynomial degree.

   Setting.  A is any UFL algebra (the values of expressions: fields over a cell), and
   [hasdeg x n] reads "x is a polynomial of total degree <= n in the spatial coordinates".  The laws
   assumed of [hasdeg] (Section hypotheses, discharged as premises of the theorems) are the degree
   laws of polynomials: deg(p+q) <= max, deg(p*q) <= +, constants have degree 0, deg(d_j p) <=
   deg p - 1 on affine simplices (no reduction is claimed for quadrilateral / hexahedral cells,
   exactly like the code), conj/re/im keep the degree.  C18_poly.v proves these laws for a concrete
   executable polynomial type.

   Environment hypothesis: component c of terminal (k, id) has degree <= [cdeg ti k id c], i.e. the
   embedded_superdegree of the sub-element that owns THAT physical component for form arguments,
   the degree of the coordinate element for x, 0 for constants.

   C18_sound_partial : for ALL expressions e of the polynomial fragment (unbounded nesting), all
     components, index valuations, sides: hasdeg (den e c) (estimate e), provided [guard e]: every
     fixed-index component of a form argument to which [indexed] attributes a sub-element's degree
     is attributed a degree >= that of the owning sub-element.
   C18_sound_identity : the guard holds for every element whose component map is the identity.
   C18_indexed_refuted : without the guard the statement is false (symmetric element P1,P3,P1). *)
Require Import UFLV.Props.C18_model.
Require Import Lia.

Section Sound.
Variable A : ualg.
Add Field AfC18 : (kfield A).
Open Scope K_scope.
Variable env : side -> nat -> nat -> list nat -> A.
Variable D DX : nat -> A -> A.
Variable ki : A.
Variable quad : bool.
Variable ti : cfg.
Variable fx : bool.
Variable hasdeg : A -> nat -> Prop.

Hypothesis h_mono : forall x n m, hasdeg x n -> n <= m -> hasdeg x m.
Hypothesis h_zero : hasdeg k0 0.
Hypothesis h_one : hasdeg k1 0.
Hypothesis h_add : forall x y n m, hasdeg x n -> hasdeg y m -> hasdeg (x + y) (Nat.max n m).
Hypothesis h_mul : forall x y n m, hasdeg x n -> hasdeg y m -> hasdeg (x * y) (n + m)%nat.
Hypothesis h_opp : forall x n, hasdeg x n -> hasdeg (- x) n.
(* division by a constant (an element of degree 0) *)
Hypothesis h_divc : forall x c n, hasdeg x n -> hasdeg c 0 -> hasdeg (x / c) n.
Hypothesis h_conj : forall x n, hasdeg x n -> hasdeg (kconj x) n.
Hypothesis h_re : forall x n, hasdeg x n -> hasdeg (kre x) n.
Hypothesis h_im : forall x n, hasdeg x n -> hasdeg (kim x) n.
Hypothesis h_ki : hasdeg ki 0.
Hypothesis h_D : forall j x n, hasdeg x n -> hasdeg (D j x) (reduce_degree quad n).
Hypothesis h_DX : forall j x n, hasdeg x n -> hasdeg (DX j x) (reduce_degree quad n).
(* the environment: polynomial fields of the degrees the elements promise *)
Hypothesis h_env : forall s k id c, hasdeg (env s k id c) (cdeg ti k id c).
Hypothesis h_wf : wf_cfg ti.

Notation DEN := (@den A env D DX ki).
Notation est := (estimate quad ti fx).

Lemma hd_zero n : hasdeg k0 n.
Proof. apply h_mono with 0; [exact h_zero | lia]. Qed.

Lemma hd_sub x y n m : hasdeg x n -> hasdeg y m -> hasdeg (x - y) (Nat.max n m).
Proof.
  intros Hx Hy. replace (x - y) with (x + - y) by ring. apply h_add; [exact Hx | apply h_opp; exact Hy].
Qed.

Lemma hd_of_pos p : hasdeg (of_pos p : A) 0.
Proof.
  induction p as [p IH|p IH|]; cbn [of_pos].
  - apply (h_add _ _ 0 0 h_one). apply (h_mul _ _ 0 0); [apply (h_add _ _ 0 0 h_one h_one) | exact IH].
  - apply (h_mul _ _ 0 0); [apply (h_add _ _ 0 0 h_one h_one) | exact IH].
  - exact h_one.
Qed.
Lemma hd_of_Z z : hasdeg (of_Z z : A) 0.
Proof. destruct z; cbn [of_Z]; [exact h_zero | apply hd_of_pos | apply h_opp, hd_of_pos]. Qed.
Lemma hd_kdyad m e : hasdeg (kdyad m e : A) 0.
Proof.
  destruct e; cbn [kdyad]; [apply hd_of_Z | |].
  - apply (h_mul _ _ 0 0); [apply hd_of_Z | apply hd_of_pos].
  - apply h_divc; [apply hd_of_Z | apply hd_of_pos].
Qed.

Lemma hd_ksum d (f : nat -> A) n : (forall k, hasdeg (f k) n) -> hasdeg (ksum d f) n.
Proof.
  intros H. induction d as [|d IH]; cbn [ksum]; [apply hd_zero|].
  replace n with (Nat.max n n) by lia. apply h_add; [exact IH | apply H].
Qed.
Lemma hd_ksum_shape sh : forall (f : list nat -> A) n, (forall I, hasdeg (f I) n) -> hasdeg (ksum_shape sh f) n.
Proof.
  induction sh as [|d sh IH]; intros f n H; cbn [ksum_shape]; [apply H|].
  apply hd_ksum. intros k. apply IH. intros I. apply H.
Qed.
Lemma hd_kpown x n m : hasdeg x n -> hasdeg (kpown x m) (n * m)%nat.
Proof.
  intros H. induction m as [|m IH]; cbn [kpown].
  - apply h_mono with 0; [exact h_one | lia].
  - apply h_mono with (n + n * m)%nat; [apply h_mul; assumption | lia].
Qed.
Lemma hd_perm_sign c : hasdeg (perm_sign c : A) 0.
Proof.
  unfold perm_sign. destruct (has_dup c); [exact h_zero|].
  destruct (Nat.even (inversions c)); [exact h_one | apply h_opp, h_one].
Qed.

(* ------------------------------------------------------------------------------------------ *)
Lemma size_pos e : 1 <= size e.
Proof. destruct e; cbn [size]; lia. Qed.

Lemma size_list_tensor x es : In x es -> size x < size (ListTensor es).
Proof.
  cbn [size]. induction es as [|y t IH]; intros H; [destruct H|].
  destruct H as [->|H]; [lia|]. specialize (IH H). lia.
Qed.

Lemma max_degrees_in d l : In d l -> d <= max_degrees l.
Proof.
  induction l as [|x t IH]; intros H; [destruct H|]. cbn [max_degrees fold_right].
  destruct H as [->|H]; [lia|]. specialize (IH H). unfold max_degrees in IH. lia.
Qed.

Lemma den_list_tensor s rho es : forall k c',
  (forall x, In x es -> hasdeg (DEN s rho x c') (est x)) ->
  hasdeg (DEN s rho (ListTensor es) (k :: c')) (max_degrees (map est es)).
Proof.
  induction es as [|x t IH]; intros k c' H.
  - cbn. apply hd_zero.
  - destruct k as [|k].
    + change (DEN s rho (ListTensor (x :: t)) (0 :: c')) with (DEN s rho x c').
      apply h_mono with (est x); [apply H; left; reflexivity|].
      apply max_degrees_in. left. reflexivity.
    + change (DEN s rho (ListTensor (x :: t)) (S k :: c')) with (DEN s rho (ListTensor t) (k :: c')).
      apply h_mono with (max_degrees (map est t)).
      * apply IH. intros y Hy. apply H. right. exact Hy.
      * cbn [map max_degrees fold_right]. unfold max_degrees. lia.
Qed.

Lemma cdeg_le k id c : cdeg ti k id c <= t_deg (ti k id).
Proof.
  unfold cdeg. pose proof (h_wf k id) as W. unfold wf_tinfo in W.
  destruct (t_elem (ti k id)) as [el|]; [|lia].
  destruct (is_formarg k); [|lia].
  destruct (nth_in_or_default (flatten c (strides (t_shape (ti k id)))) (e_pdeg el) (t_deg (ti k id))) as [Hin|E]; [|rewrite E; lia].
  rewrite forallb_forall in W. apply Nat.leb_le. apply W. exact Hin.
Qed.

Lemma all_fixed_map rho mi c : all_fixed mi = Some c -> map (idxval rho) mi = c.
Proof.
  revert c. induction mi as [|i t IH]; intros c H; cbn in H.
  - injection H as <-. reflexivity.
  - destruct i as [n|j]; [|discriminate]. destruct (all_fixed t) as [l|]; [|discriminate].
    injection H as <-. cbn. f_equal. apply IH. reflexivity.
Qed.

Lemma reduce_le n : reduce_degree quad n <= n.
Proof. unfold reduce_degree. destruct quad; lia. Qed.

Ltac split_and :=
  repeat match goal with
         | H : _ && _ = true |- _ => apply andb_prop in H; destruct H
         end.

Lemma sound_aux : forall n e, size e <= n -> poly quad ti fx e = true -> guard ti fx e = true ->
  forall s rho c, hasdeg (DEN s rho e c) (est e).
Proof.
  induction n as [|n IH]; intros e Hs Hp Hg s rho c.
  { pose proof (size_pos e). lia. }
  destruct e; cbn [poly] in Hp; try discriminate Hp; cbn [size] in Hs; cbn [guard] in Hg; split_and.
  - (* Zero *) cbn. apply hd_zero.
  - (* IntV *) cbn. apply hd_of_Z.
  - (* RealV *) cbn. apply hd_kdyad.
  - (* CplxV *) cbn [den estimate].
    apply (h_add _ _ 0 0); [apply hd_kdyad | apply (h_mul _ _ 0 0); [exact h_ki | apply hd_kdyad]].
  - (* RatV *) cbn [den estimate]. apply h_divc; [apply hd_of_Z | apply hd_of_pos].
  - (* Identity *) cbn [den estimate].
    destruct c as [|i [|j [|? ?]]]; try exact h_zero. destruct (Nat.eqb i j); [exact h_one | exact h_zero].
  - (* PermSym *) cbn [den estimate]. apply hd_perm_sign.
  - (* Term *) cbn [den estimate]. apply h_mono with (cdeg ti k id c); [apply h_env | apply cdeg_le].
  - (* Sum *) cbn [den estimate max_degrees fold_right]. rewrite Nat.max_0_r.
    apply h_add; apply IH; auto; lia.
  - (* Product *) cbn [den estimate add_degrees fold_right]. rewrite Nat.add_0_r.
    apply h_mul; apply IH; auto; lia.
  - (* Division *) cbn [den estimate add_degrees fold_right].
    match goal with H : Nat.eqb _ 0 = true |- _ => apply Nat.eqb_eq in H; rewrite H end.
    rewrite !Nat.add_0_r. apply h_divc; [apply IH; auto; lia|].
    match goal with H : est e2 = 0 |- _ => rewrite <- H end. apply IH; auto; lia.
  - (* Power *) cbn [estimate]. destruct e2; cbn [nonneg_int] in *; try discriminate.
    cbn [int_exponent power_rule].
    match goal with H : (0 <=? z)%Z = true |- _ => rewrite H; apply Z.leb_le in H end.
    destruct z as [|p|p]; [| |lia].
    + cbn [den]. apply h_mono with 0; [exact h_one | lia].
    + cbn [den]. rewrite Z2Nat.inj_pos. apply hd_kpown. apply IH; auto; lia.
  - (* Conj *) cbn [den estimate]. apply h_conj. apply IH; auto; lia.
  - (* Real *) cbn [den estimate]. apply h_re. apply IH; auto; lia.
  - (* Imag *) cbn [den estimate]. apply h_im. apply IH; auto; lia.
  - (* Indexed *) cbn [den estimate]. unfold indexed_rule.
    match goal with H : indexed_ok _ _ _ _ = true |- _ => rename H into Hok end.
    unfold indexed_ok in Hok.
    destruct (indexed_walk fx ti e mi) as [d|] eqn:Ew.
    + destruct e; try discriminate Hok.
      destruct (all_fixed mi) as [cf|] eqn:Ef; [|discriminate Hok].
      apply andb_prop in Hok. destruct Hok as [_ Hle]. apply Nat.leb_le in Hle.
      rewrite (all_fixed_map rho mi cf Ef). cbn [den].
      apply h_mono with (cdeg ti k id cf); [apply h_env | exact Hle].
    + apply IH; auto; lia.
  - (* IndexSum *) cbn [den estimate]. apply hd_ksum. intros k. apply IH; auto; lia.
  - (* ComponentTensor *) cbn [den estimate]. apply IH; auto; lia.
  - (* ListTensor *) cbn [estimate]. destruct c as [|k c'].
    + cbn. apply hd_zero.
    + apply den_list_tensor. intros x Hx.
      rewrite forallb_forall in Hp, Hg.
      apply IH; auto. pose proof (size_list_tensor x es Hx) as Hlt. cbn [size] in Hlt. lia.
  - (* Vari *) cbn [den estimate]. apply IH; auto; lia.
  - (* Restricted *) cbn [den estimate]. apply IH; auto; lia.
  - (* Grad *) cbn [den estimate]. destruct (split_last c) as [c' j]. apply h_D. apply IH; auto; lia.
  - (* RefGrad *) cbn [den estimate]. destruct (split_last c) as [c' j]. apply h_DX. apply IH; auto; lia.
  - (* Div *) cbn [den estimate]. apply hd_ksum. intros j. apply h_D. apply IH; auto; lia.
  - (* NablaGrad *) cbn [den estimate]. destruct c as [|j c']; [apply hd_zero|]. apply h_D. apply IH; auto; lia.
  - (* NablaDiv *) cbn [den estimate]. apply hd_ksum. intros j. apply h_D. apply IH; auto; lia.
  - (* Curl *) cbn [den estimate].
    assert (HD : forall j c0, hasdeg (D j (DEN s rho e c0)) (reduce_degree quad (est e))).
    { intros j c0. apply h_D. apply IH; auto; lia. }
    assert (HS : forall x y m, hasdeg x m -> hasdeg y m -> hasdeg (x - y) m).
    { intros x y m Hx Hy. replace m with (Nat.max m m) by lia. apply hd_sub; assumption. }
    destruct (shape e) as [|d0 [|d1 l]]; destruct c as [|i [|i' c']]; try apply hd_zero;
      try (destruct (Nat.eqb i 0); [apply HD | apply h_opp, HD]);
      try (apply HS; apply HD).
    all: destruct d0 as [|[|[|d0]]]; try apply hd_zero; try (apply HS; apply HD).
  - (* Transposed *) cbn [den estimate]. apply IH; auto; lia.
  - (* Outer *) cbn [den estimate add_degrees fold_right]. rewrite Nat.add_0_r.
    apply h_mul; [apply h_conj|]; apply IH; auto; lia.
  - (* Inner *) cbn [den estimate add_degrees fold_right]. rewrite Nat.add_0_r.
    apply hd_ksum_shape. intros I. apply h_mul; [|apply h_conj]; apply IH; auto; lia.
  - (* Dot *) cbn [den estimate add_degrees fold_right]. rewrite Nat.add_0_r.
    apply hd_ksum. intros k. apply h_mul; apply IH; auto; lia.
  - (* Cross *) cbn [den estimate add_degrees fold_right]. rewrite Nat.add_0_r.
    destruct c as [|i [|i' c']]; try apply hd_zero.
    replace (est e1 + est e2)%nat with (Nat.max (est e1 + est e2) (est e1 + est e2))%nat by lia.
    apply hd_sub; apply h_mul; apply IH; auto; lia.
Qed.

(* The main theorem (partial: guarded). *)
Theorem C18_sound_partial : forall e, poly quad ti fx e = true -> guard ti fx e = true ->
  forall s rho c, hasdeg (DEN s rho e c) (est e).
Proof. intros e. apply (sound_aux (size e)). lia. Qed.

(* every Term under an Indexed carries the shape recorded for the terminal *)
Fixpoint shapes_ok (e : expr) : bool :=
  match e with
  | Indexed (Term k id sh) _ => if list_eq_dec Nat.eq_dec sh (t_shape (ti k id)) then true else false
  | Zero _ _ | IntV _ | RealV _ _ | CplxV _ _ _ _ | RatV _ _ | Identity _ | PermSym _
  | Term _ _ _ => true
  | Sum a b | Product a b | Division a b | Power a b | MinV a b | MaxV a b | Atan2 a b
  | Bessel _ a b | Outer a b | Inner a b | Dot a b | Cross a b => shapes_ok a && shapes_ok b
  | Indexed a _ => shapes_ok a
  | Abs a | Conj a | Real a | Imag a | IndexSum a _ _ | ComponentTensor a _
  | Math _ a | Vari a _ | Restricted _ a | Grad a _ | RefGrad a _ | Div a _ | NablaGrad a _
  | NablaDiv a _ | Curl a | RefValue a _ | Transposed a
  | Perp a | Trace a | Determinant a | Inverse a | Cofactor a | Deviatoric a | Skew a | Sym a => shapes_ok a
  | ListTensor es => forallb shapes_ok es
  | Conditional _ t f => shapes_ok t && shapes_ok f
  end.

(* if [indexed] is right at every node, the guard holds for every expression *)
Section GuardFromOk.
Hypothesis Hok : forall a mi, (forall k id sh, a = Term k id sh -> sh = t_shape (ti k id)) ->
  indexed_ok ti fx a mi = true.

Lemma guard_from_ok : forall n e, size e <= n -> shapes_ok e = true -> guard ti fx e = true.
Proof.
  induction n as [|n IH]; intros e Hs Hsh.
  { pose proof (size_pos e). lia. }
  destruct e; cbn [guard]; cbn [size] in Hs; try reflexivity;
    try (cbn [shapes_ok] in Hsh; split_and; rewrite ?IH by (auto; lia); reflexivity).
  - (* Indexed *)
    apply andb_true_intro. split.
    + apply Hok. intros k id sh ->. cbn [shapes_ok] in Hsh.
      destruct (list_eq_dec Nat.eq_dec sh (t_shape (ti k id))); [assumption | discriminate].
    + destruct e; cbn [guard]; try reflexivity; cbn [shapes_ok] in Hsh; cbn [size] in Hs;
        try (split_and; rewrite ?IH by (auto; lia); reflexivity).
      * apply andb_true_intro. split.
        -- apply Hok. intros k id sh ->.
           destruct (list_eq_dec Nat.eq_dec sh (t_shape (ti k id))); [assumption | discriminate].
        -- apply (IH (Indexed e mi0)) in Hsh; [|cbn [size]; lia]. cbn [guard] in Hsh. split_and. assumption.
      * apply (IH (ListTensor es)); [cbn [size]; lia | exact Hsh].
  - (* ListTensor *)
    cbn [shapes_ok] in Hsh. rewrite forallb_forall in *. intros x Hx. apply IH; auto.
    pose proof (size_list_tensor x es Hx) as Hlt. cbn [size] in Hlt. lia.
Qed.
End GuardFromOk.

(* the walk result dominates the owner's degree whenever the owner degrees are pointwise below the
   concatenation of the sub-elements' reference blocks *)
Definition dom_elem (el : elem) : bool :=
  Nat.eqb (length (e_pdeg el)) (length (ident_pdeg (e_subs el)))
  && forallb (fun p => Nat.leb (fst p) (snd p)) (combine (e_pdeg el) (ident_pdeg (e_subs el))).

Lemma walk_lt subs : forall comp offset d, walk subs comp offset = Some d -> offset <= comp ->
  comp - offset < length (ident_pdeg subs).
Proof.
  induction subs as [|[sz d0] t IH]; intros comp offset d H Hle; cbn [walk] in H; [discriminate|].
  unfold ident_pdeg. cbn [map concat fst snd]. rewrite app_length, repeat_length.
  destruct (Nat.ltb comp (offset + sz)) eqn:E.
  - apply Nat.ltb_lt in E. lia.
  - apply Nat.ltb_ge in E. specialize (IH comp (offset + sz)%nat d H E). unfold ident_pdeg in IH. lia.
Qed.

Lemma combine_le_nth : forall (l1 l2 : list nat) n d1 d2, length l1 = length l2 ->
  forallb (fun p => Nat.leb (fst p) (snd p)) (combine l1 l2) = true -> n < length l2 ->
  nth n l1 d1 <= nth n l2 d2.
Proof.
  induction l1 as [|x l1 IH]; intros l2 n d1 d2 HL HF Hn; destruct l2 as [|y l2]; cbn in HL; try discriminate.
  - cbn in Hn. lia.
  - cbn in HF. apply andb_prop in HF. destruct HF as [H1 H2]. apply Nat.leb_le in H1.
    destruct n; cbn [nth]; [exact H1|]. apply IH; [lia | exact H2 | cbn in Hn; lia].
Qed.

Lemma walk_dom el comp d dflt : dom_elem el = true -> walk (e_subs el) comp 0 = Some d ->
  nth comp (e_pdeg el) dflt <= d.
Proof.
  intros Hd Hw. unfold dom_elem in Hd. apply andb_prop in Hd. destruct Hd as [HL HF].
  apply Nat.eqb_eq in HL.
  pose proof (walk_lt _ _ _ _ Hw (Nat.le_0_l _)) as Hlt. rewrite Nat.sub_0_r in Hlt.
  pose proof (walk_ident _ _ _ _ 0 Hw (Nat.le_0_l _)) as Hi. rewrite Nat.sub_0_r in Hi.
  rewrite <- Hi. apply combine_le_nth; assumption.
Qed.

(* (a) elements with identity component map (any variant of [indexed]) *)
Definition ident_cfg : Prop :=
  forall k id el, t_elem (ti k id) = Some el -> ident_elem el.
(* (b) the fixed variant: elements on which the fixed code still walks (non-symmetric pullback,
   physical size = reference size) have owner degrees dominated by the reference blocks *)
Definition fixed_cfg : Prop :=
  forall k id el, t_elem (ti k id) = Some el -> e_sym el = false ->
    shape_size (t_shape (ti k id)) = e_refsize el -> dom_elem el = true.

Lemma ident_dom el : ident_elem el -> dom_elem el = true.
Proof.
  unfold ident_elem, dom_elem. intros ->. rewrite Nat.eqb_refl. cbn [andb].
  induction (ident_pdeg (e_subs el)) as [|x l IH]; cbn; [reflexivity|]. rewrite Nat.leb_refl. exact IH.
Qed.

Lemma indexed_ok_dom :
  (forall k id el, t_elem (ti k id) = Some el ->
     (fx = true -> e_sym el = false /\ shape_size (t_shape (ti k id)) = e_refsize el) -> dom_elem el = true) ->
  forall a mi, (forall k id sh, a = Term k id sh -> sh = t_shape (ti k id)) -> indexed_ok ti fx a mi = true.
Proof.
  intros Hdom a mi Hsh. unfold indexed_ok.
  destruct (indexed_walk fx ti a mi) as [d|] eqn:Ew; [|reflexivity].
  destruct a; try discriminate Ew. unfold indexed_walk in Ew.
  destruct (is_formarg k) eqn:Ek; [|discriminate].
  destruct (all_fixed mi) as [cf|]; [|discriminate].
  destruct (t_elem (ti k id)) as [el|] eqn:Eel; [|discriminate].
  pose proof (Hsh k id sh eq_refl) as Esh. subst sh.
  destruct (list_eq_dec Nat.eq_dec (t_shape (ti k id)) (t_shape (ti k id))) as [_|N]; [|contradiction].
  cbn [andb]. apply Nat.leb_le.
  destruct (e_subs el) eqn:Es; [discriminate|]. rewrite <- Es in Ew.
  destruct (Nat.eqb (length mi) (length (t_shape (ti k id))) &&
            (negb fx || (negb (e_sym el) && Nat.eqb (shape_size (t_shape (ti k id))) (e_refsize el)))) eqn:Ec;
    [|discriminate].
  apply andb_prop in Ec. destruct Ec as [_ Ec].
  unfold cdeg. rewrite Eel, Ek.
  apply walk_dom; [|exact Ew]. apply (Hdom k id el Eel). intros ->. cbn in Ec.
  apply andb_prop in Ec. destruct Ec as [E1 E2]. apply Nat.eqb_eq in E2.
  split; [destruct (e_sym el); [discriminate | reflexivity] | exact E2].
Qed.

Theorem C18_sound_identity : ident_cfg -> forall e, poly quad ti fx e = true -> shapes_ok e = true ->
  forall s rho c, hasdeg (DEN s rho e c) (est e).
Proof.
  intros Hid e Hp Hsh. apply C18_sound_partial; [exact Hp|].
  apply (guard_from_ok (indexed_ok_dom (fun k id el E _ => ident_dom el (Hid k id el E))) (size e)); [lia | exact Hsh].
Qed.

(* The FULL statement for the fixed variant of [indexed]: no guard on the expression. *)
Theorem C18_sound_fixed : fx = true -> fixed_cfg -> forall e, poly quad ti fx e = true -> shapes_ok e = true ->
  forall s rho c, hasdeg (DEN s rho e c) (est e).
Proof.
  intros Hfx Hfc e Hp Hsh. apply C18_sound_partial; [exact Hp|].
  apply (guard_from_ok (indexed_ok_dom (fun k id el E H => Hfc k id el E (proj1 (H Hfx)) (proj2 (H Hfx))))
                       (size e)); [lia | exact Hsh].
Qed.

End Sound.

(* ---------------------------------------------------------------------------------------------- *)
(* Refutation of the unguarded statement at the level of the degree attribution: for the symmetric
   element with sub-elements (P1, P3, P1) on a 2x2 tensor (symmetry (0,0)->0, (0,1),(1,0)->1,
   (1,1)->2) the estimator attributes degree 1 to the component u[1,0], which is owned by the P3
   sub-element.  (C18_poly.v turns this into a concrete polynomial field of degree 3.) *)
Definition sym131 : elem :=
  {| e_subs := [(1, 1); (1, 3); (1, 1)]; e_pdeg := [1; 3; 3; 1]; e_sym := true; e_refsize := 3 |}.
Definition cfg131 : cfg := mkcfg [(0, 0, {| t_deg := 3; t_shape := [2; 2]; t_elem := Some sym131 |})].
Definition u10 : expr := Indexed (Term 0 0 [2; 2]) [Fixed 1; Fixed 0].

Theorem C18_indexed_refuted :
  exists ti e c, wf_cfg ti /\ poly false ti false e = true /\
    match e with Indexed (Term k id _) _ => estimate false ti false e < cdeg ti k id c | _ => False end.
Proof.
  exists cfg131, u10, [1; 0]. split; [|split].
  - apply wf_list_cfg. reflexivity.
  - reflexivity.
  - vm_compute. lia.
Qed.

(* the fixed variant attributes the whole element's degree to the witness *)
Example C18_fixed_witness : estimate false cfg131 true u10 = 3 /\ guard cfg131 true u10 = true.
Proof. split; reflexivity. Qed.

Print Assumptions C18_sound_partial.
Print Assumptions C18_sound_fixed.
Print Assumptions C18_sound_identity.
Print Assumptions C18_indexed_refuted.
