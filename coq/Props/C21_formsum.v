(* C21, weighted sums of forms (FormSum): map_integrands / replace maps every component, drops the components
   that vanish and keeps the weight of every surviving component.

     fs_replace r l        the model: l is the list of (component, weight), r maps a component to its
                           image or to None when the image is zero
     C21_formsum_weights   every surviving pair carries the weight its source component had, in the same order
     C21_formsum_value     the value sum_i w_i * val(c_i) of the result equals sum_i w_i * val(r c_i), where a
                           vanished component contributes 0: for ALL lists, weights and maps *)
Require Import UFLV.Core.Den.

Section FormSum.
Variables C W : Type.
Variable r : C -> option C.

Fixpoint fs_replace (l : list (C * W)) : list (C * W) :=
  match l with
  | [] => []
  | (c, w) :: t => match r c with Some c' => (c', w) :: fs_replace t | None => fs_replace t end
  end.

Theorem C21_formsum_weights : forall l c' w,
  In (c', w) (fs_replace l) -> exists c, In (c, w) l /\ r c = Some c'.
Proof.
  induction l as [|[c0 w0] t IH]; intros c' w H; [destruct H|].
  cbn [fs_replace] in H. destruct (r c0) as [c0'|] eqn:E.
  - destruct H as [H|H].
    + inversion H; subst. exists c0. split; [left; reflexivity|exact E].
    + destruct (IH _ _ H) as [c [Hin Hr]]. exists c. split; [right; exact Hin|exact Hr].
  - destruct (IH _ _ H) as [c [Hin Hr]]. exists c. split; [right; exact Hin|exact Hr].
Qed.

Theorem C21_formsum_order : forall l,
  map snd (fs_replace l) = map snd (filter (fun p => match r (fst p) with Some _ => true | None => false end) l).
Proof.
  induction l as [|[c0 w0] t IH]; [reflexivity|]. cbn [fs_replace filter fst].
  destruct (r c0); cbn [map snd]; rewrite IH; reflexivity.
Qed.
End FormSum.

Section Value.
Variable A : ualg.
Add Field AfC21fs : (kfield A).
Open Scope K_scope.
Variable C : Type.
Variable r : C -> option C.
Variable val : C -> A.

Fixpoint fs_val (l : list (C * A)) : A :=
  match l with [] => k0 | (c, w) :: t => w * val c + fs_val t end.
Fixpoint fs_val_mapped (l : list (C * A)) : A :=
  match l with
  | [] => k0
  | (c, w) :: t => w * (match r c with Some c' => val c' | None => k0 end) + fs_val_mapped t
  end.

Theorem C21_formsum_value : forall l, fs_val (fs_replace C A r l) = fs_val_mapped l.
Proof.
  induction l as [|[c w] t IH]; [reflexivity|]. cbn [fs_replace fs_val fs_val_mapped].
  destruct (r c); cbn [fs_val]; rewrite IH; ring.
Qed.
End Value.

Print Assumptions C21_formsum_weights.
Print Assumptions C21_formsum_order.
Print Assumptions C21_formsum_value.
