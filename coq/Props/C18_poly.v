(* C18: a concrete, executable polynomial type satisfying the degree laws that C18_sound.v assumes
   of [hasdeg], and the refutation of the unguarded statement with an actual polynomial.

   Polynomials in one variable over Z as coefficient lists (little endian); [deg_le p n] says every
   coefficient above n vanishes -- a semantic notion (independent of trailing zeros).  Proved:
   deg(p+q) <= max, deg(p*q) <= +, deg(-p) <= deg p, deg(c) <= 0, deg(x) <= 1, deg(p') <= deg p - 1,
   deg(p^k) <= k*deg p, monotonicity.  (One variable: the cell is an interval; the laws for total
   degree in several variables are the Section hypotheses of C18_sound.v.) *)
Require Import UFLV.Props.C18_model UFLV.Props.C18_sound.
Require Import ZArith Lia List.
Import ListNotations.
Open Scope Z_scope.

Definition poly1 := list Z.
Definition coeff (p : poly1) (k : nat) : Z := nth k p 0.
Definition deg_le (p : poly1) (n : nat) : Prop := forall k, (n < k)%nat -> coeff p k = 0.
Definition deg_lt (p : poly1) (n : nat) : Prop := forall k, (n <= k)%nat -> coeff p k = 0.

Fixpoint padd (p q : poly1) : poly1 :=
  match p, q with
  | [], _ => q
  | _, [] => p
  | a :: p', b :: q' => (a + b) :: padd p' q'
  end.
Definition pscale (a : Z) (p : poly1) : poly1 := map (Z.mul a) p.
Definition popp (p : poly1) : poly1 := pscale (-1) p.
Fixpoint pmul (p q : poly1) : poly1 :=
  match p with [] => [] | a :: p' => padd (pscale a q) (0 :: pmul p' q) end.
Fixpoint pderiv_aux (j : nat) (p : poly1) : poly1 :=
  match p with [] => [] | a :: p' => (Z.of_nat j * a) :: pderiv_aux (S j) p' end.
Definition pderiv (p : poly1) : poly1 := match p with [] => [] | _ :: p' => pderiv_aux 1 p' end.
Fixpoint ppow (p : poly1) (k : nat) : poly1 := match k with O => [1] | S k' => pmul p (ppow p k') end.
Definition pconst (c : Z) : poly1 := [c].
Definition pX : poly1 := [0; 1].

Lemma coeff_nil k : coeff [] k = 0.
Proof. unfold coeff. destruct k; reflexivity. Qed.
Lemma coeff_padd p : forall q k, coeff (padd p q) k = coeff p k + coeff q k.
Proof.
  induction p as [|a p IH]; intros q k; cbn [padd].
  - rewrite coeff_nil. lia.
  - destruct q as [|b q]; [rewrite coeff_nil; lia|].
    destruct k; unfold coeff in *; cbn [nth]; [lia | apply IH].
Qed.
Lemma coeff_pscale a p k : coeff (pscale a p) k = a * coeff p k.
Proof.
  unfold coeff, pscale. revert k. induction p as [|b p IH]; intros k; destruct k; cbn [map nth]; try lia; apply IH.
Qed.

Lemma deg_le_mono p n m : deg_le p n -> (n <= m)%nat -> deg_le p m.
Proof. intros H L k Hk. apply H. lia. Qed.
Lemma deg_le_add p q n m : deg_le p n -> deg_le q m -> deg_le (padd p q) (Nat.max n m).
Proof. intros Hp Hq k Hk. rewrite coeff_padd, Hp, Hq by lia. reflexivity. Qed.
Lemma deg_le_opp p n : deg_le p n -> deg_le (popp p) n.
Proof. intros Hp k Hk. unfold popp. rewrite coeff_pscale, Hp by lia. reflexivity. Qed.
Lemma deg_le_const c : deg_le (pconst c) 0.
Proof. intros k Hk. unfold coeff, pconst. destruct k as [|[|k]]; [lia | reflexivity | reflexivity]. Qed.
Lemma deg_le_X : deg_le pX 1.
Proof. intros k Hk. unfold coeff, pX. destruct k as [|[|[|k]]]; try lia; reflexivity. Qed.

Lemma pmul_zero p : forall q, (forall k, coeff p k = 0) -> forall k, coeff (pmul p q) k = 0.
Proof.
  induction p as [|a p IH]; intros q H k; cbn [pmul]; [apply coeff_nil|].
  rewrite coeff_padd, coeff_pscale.
  assert (Ha : a = 0) by (apply (H 0%nat)). subst a.
  destruct k; [unfold coeff; cbn; lia|].
  change (coeff (0 :: pmul p q) (S k)) with (coeff (pmul p q) k).
  rewrite IH; [lia|]. intros j. apply (H (S j)).
Qed.

Lemma deg_lt_mul p : forall q n m, deg_lt p (S n) -> deg_lt q (S m) -> deg_lt (pmul p q) (S (n + m)).
Proof.
  induction p as [|a p IH]; intros q n m Hp Hq k Hk; cbn [pmul]; [apply coeff_nil|].
  rewrite coeff_padd, coeff_pscale, (Hq k) by lia.
  destruct k as [|k]; [lia|].
  change (coeff (0 :: pmul p q) (S k)) with (coeff (pmul p q) k).
  assert (Hp' : deg_lt p n). { intros j Hj. apply (Hp (S j)). lia. }
  destruct n as [|n].
  - rewrite pmul_zero; [lia|]. intros j. apply Hp'. lia.
  - rewrite (IH q n m Hp' Hq k) by lia. lia.
Qed.

Lemma deg_le_lt p n : deg_le p n <-> deg_lt p (S n).
Proof. split; intros H k Hk; apply H; lia. Qed.

Lemma deg_le_mul p q n m : deg_le p n -> deg_le q m -> deg_le (pmul p q) (n + m).
Proof. rewrite !deg_le_lt. apply deg_lt_mul. Qed.

Lemma deg_le_pow p n k : deg_le p n -> deg_le (ppow p k) (n * k).
Proof.
  intros H. induction k as [|k IH]; cbn [ppow].
  - apply deg_le_mono with 0%nat; [apply deg_le_const | lia].
  - apply deg_le_mono with (n + n * k)%nat; [apply deg_le_mul; assumption | lia].
Qed.

Lemma coeff_pderiv_aux p : forall j k, coeff (pderiv_aux j p) k = Z.of_nat (j + k) * coeff p k.
Proof.
  induction p as [|a p IH]; intros j k; cbn [pderiv_aux]; [rewrite !coeff_nil; lia|].
  destruct k; unfold coeff in *; cbn [nth].
  - rewrite Nat.add_0_r. reflexivity.
  - rewrite IH. f_equal. lia.
Qed.
Lemma deg_le_deriv p n : deg_le p n -> deg_le (pderiv p) (n - 1).
Proof.
  intros H k Hk. destruct p as [|a p]; cbn [pderiv]; [apply coeff_nil|].
  rewrite coeff_pderiv_aux. change (coeff p k) with (coeff (a :: p) (S k)). rewrite H by lia. lia.
Qed.

(* the laws are not vacuous: x^3 has degree 3 and not degree 1 *)
Definition x3 : poly1 := ppow pX 3.
Lemma x3_deg3 : deg_le x3 3.
Proof. apply (deg_le_pow pX 1 3 deg_le_X). Qed.
Lemma x3_not_deg1 : ~ deg_le x3 1.
Proof. intros H. specialize (H 3%nat). assert (coeff x3 3 = 1) by reflexivity. lia. Qed.

(* Refutation with an actual polynomial field: a coefficient on the symmetric element (P1,P3,P1)
   whose components respect the degrees of their owning sub-elements (the environment hypothesis
   of C18_sound_partial) and whose component [1,0] -- the value of u[1,0] -- has a degree above the
   estimate.  Hence no theorem "estimate >= degree" holds without the guard. *)
Definition field131 (c : list nat) : poly1 :=
  match c with [0%nat; 1%nat] | [1%nat; 0%nat] => x3 | _ => pX end.

Theorem C18_refuted_poly :
  exists (ti : cfg) (field : list nat -> poly1) (mi : list idx) (c : list nat),
    wf_cfg ti /\ all_fixed mi = Some c /\
    (forall c', deg_le (field c') (cdeg ti 0 0 c')) /\
    ~ deg_le (field c) (estimate false ti false (Indexed (Term 0 0 [2; 2]%nat) mi)).
Proof.
  exists cfg131, field131, [Fixed 1; Fixed 0], [1; 0]%nat. repeat split.
  - apply wf_list_cfg. reflexivity.
  - intros c'.
    assert (L : forall n, (1 <= nth n [1; 3; 3; 1] 3)%nat) by (intros [|[|[|[|[|n]]]]]; cbn; lia).
    assert (G : forall c0, (1 <= cdeg cfg131 0 0 c0)%nat) by (intros c0; apply L).
    assert (P : deg_le pX (cdeg cfg131 0 0 c')) by (apply deg_le_mono with 1%nat; [apply deg_le_X | apply G]).
    unfold field131.
    destruct c' as [|[|[|a]] [|[|[|b]] [|? ?]]]; try exact P; exact x3_deg3.
  - change (estimate false cfg131 false (Indexed (Term 0 0 [2; 2]%nat) [Fixed 1; Fixed 0])) with 1%nat.
    exact x3_not_deg1.
Qed.

Print Assumptions deg_le_mul.
Print Assumptions deg_le_deriv.
Print Assumptions C18_refuted_poly.
