(* C10: every relabelling that is injective on the indices of e (and maps them to indices) is safe
   for e; hence renumber_indices -- which builds such a map -- preserves the value of every
   expression of the fragment, hygienic or not (C10_renumber_injective). *)
Require Import UFLV.Core.Den UFLV.Props.C10_model UFLV.Props.C10_lemmas UFLV.Props.C10_thm.
Import ListNotations.

Definition inj_on (m : imap) (l : list nat) : Prop :=
  (forall i, In i l -> is_free (sub m (Free i)) = true) /\
  (forall i j, In i l -> In j l -> sub m (Free i) = sub m (Free j) -> i = j).

Lemma idx_eqb_eq x y : idx_eqb x y = true -> x = y.
Proof. destruct x, y; cbn; intros H; try discriminate; apply Nat.eqb_eq in H; congruence. Qed.

Lemma dv_aidx_n n : forall e j, size e <= n -> In j (dv e) -> In j (aidx e).
Proof.
  induction n as [|n IH]; intros e j Hs Hj.
  - destruct e; cbn in Hs; lia.
  - destruct (is_plain e) eqn:Hp.
    + rewrite dv_plain in Hj by (destruct e; try reflexivity; discriminate).
      rewrite efold_children in Hj. apply fold_app_in in Hj. destruct Hj as [a [Ha Hj]].
      apply (aidx_child e a j Hp Ha). apply IH; [pose proof (children_size e a Ha); lia|exact Hj].
    + destruct e; try discriminate Hp.
      * destruct Hj.
      * cbn [dv aidx] in *. apply in_app_or in Hj. apply in_or_app. destruct Hj as [Hj|Hj]; [left|right; exact Hj].
        apply IH; [cbn in Hs; lia|exact Hj].
      * cbn [dv efold] in Hj. rewrite app_nil_r in Hj. cbn [aidx]. right. apply IH; [cbn in Hs; lia|exact Hj].
      * cbn [dv efold] in Hj. rewrite app_nil_r in Hj. cbn [aidx]. apply in_or_app. right.
        apply IH; [cbn in Hs; lia|exact Hj].
Qed.

Lemma binder_ok_inj m l scope i : inj_on m l -> In i l -> incl scope l -> binder_ok m scope i = true.
Proof.
  intros [Hf Hi] Hil Hsc. unfold binder_ok. rewrite (Hf i Hil). cbn [andb]. apply forallb_forall. intros j Hj.
  destruct (Nat.eqb j i) eqn:E; [reflexivity|]. cbn [orb].
  destruct (idx_eqb (sub m (Free j)) (sub m (Free i))) eqn:E2; [|reflexivity].
  apply idx_eqb_eq in E2. apply Hi in E2; [|apply Hsc; exact Hj|exact Hil].
  subst j. rewrite Nat.eqb_refl in E. discriminate.
Qed.

Lemma inj_safe_n m l n : inj_on m l -> forall e, size e <= n -> incl (aidx e) l -> safe m e = true.
Proof.
  intros Hinj. induction n as [|n IH]; intros e Hs Hl.
  - destruct e; cbn in Hs; lia.
  - destruct (is_plain e) eqn:Hp.
    + assert (safe m e = efold andb true (safe m) e) as -> by (destruct e; try reflexivity; discriminate).
      rewrite efold_children. apply fold_andb_all. intros a Ha.
      apply IH; [pose proof (children_size e a Ha); lia|].
      intros j Hj. apply Hl. apply (aidx_child e a j Hp Ha Hj).
    + destruct e; try discriminate Hp.
      * reflexivity.
      * cbn [safe efold]. rewrite andb_true_r. apply IH; [cbn in Hs; lia|].
        intros j Hj. apply Hl. cbn [aidx]. apply in_or_app. left. exact Hj.
      * cbn [safe]. cbn [aidx] in Hl. apply andb_true_iff. split.
        -- apply (binder_ok_inj m l); [exact Hinj|apply Hl; left; reflexivity|].
           intros j Hj. apply Hl. right. apply (dv_aidx_n (size e) e j (le_n _) Hj).
        -- apply IH; [cbn in Hs; lia|]. intros j Hj. apply Hl. right. exact Hj.
      * cbn [safe]. cbn [aidx] in Hl. apply andb_true_iff. split.
        -- apply forallb_forall. intros p Hp'.
           apply (binder_ok_inj m l); [exact Hinj|apply Hl; apply in_or_app; left; exact Hp'|].
           intros j Hj. apply Hl. apply in_app_or in Hj. apply in_or_app. destruct Hj as [Hj|Hj]; [left; exact Hj|right].
           apply (dv_aidx_n (size e) e j (le_n _) Hj).
        -- apply IH; [cbn in Hs; lia|]. intros j Hj. apply Hl. apply in_or_app. right. exact Hj.
Qed.

Section Ren.
Variable A : ualg.
Variable env : side -> nat -> nat -> list nat -> A.
Variables D DX : nat -> A -> A.
Variable ki : A.
Notation DEN := (@den A env D DX ki).

(* renumbering with ANY map that is injective on the indices of e preserves the value of every
   valid component, up to the correspondingly renamed valuation -- no hygiene assumption *)
Theorem C10_renumber_injective m e e' :
  inj_on m (aidx e) -> irep m e = Some e' ->
  forall s rho c, rk e (length c) = true ->
  DEN s rho e' c = DEN s (fun i => idxval rho (sub m (Free i))) e c.
Proof.
  intros Hinj Hm. apply (C10_renumber A env D DX ki m e e'); [|exact Hm].
  apply (inj_safe_n m (aidx e) (size e) Hinj e (le_n _)). intros j Hj; exact Hj.
Qed.
End Ren.

Print Assumptions C10_renumber_injective.
