(* C18, hand-written model: ufl/algorithms/estimate_degrees.py (SumDegreeEstimator).

   [estimate] is the degree the real estimator returns for an expression of the frozen syntax
   (integer degrees: simplex cells; tuple degrees of tensor-product cells are out of scope).  It is
   FAITHFUL to the code, including [indexed], which walks the *reference* value sizes of the
   sub-elements with the *physical* flat component.  The handler table of the class is mirrored by
   [table] (compared with the table regenerated from the source by the AST translator on every run)
   and the lemmas [tbl_*] state that [estimate] is the interpretation of that table. *)
Require Export UFLV.Core.Den.
Require Import Lia.

(* ---------------------------------------------------------------------------------------------- *)
(* arithmetic of the helper methods *)

Definition add_degrees (ops : list nat) : nat := fold_right Nat.add 0 ops.     (* sum(ops) *)
Definition max_degrees (ops : list nat) : nat := fold_right Nat.max 0 ops.     (* max(ops + (0,)) *)
(* _reduce_degree: max(f - 1, 0) unless a quadrilateral / hexahedron cell is involved *)
Definition reduce_degree (quad : bool) (f : nat) : nat := if quad then f else Nat.max (f - 1) 0.
(* power: exponent an IntValue gi >= 0 -> a * gi, everything else a + 2 *)
Definition power_rule (a : nat) (g : option Z) : nat :=
  match g with
  | Some gi => if (0 <=? gi)%Z then a * Z.to_nat gi else add_degrees [a; 2]
  | None => add_degrees [a; 2]
  end.
Definition math_rule (a : nat) : nat := if Nat.eqb a 0 then a else add_degrees [a; 2].
Definition atan2_rule (a b : nat) : nat :=
  if negb (Nat.eqb a 0) || negb (Nat.eqb b 0) then add_degrees [max_degrees [a; b]; 2]
  else max_degrees [a; b].
Definition abs_rule (a : nat) : nat := if Nat.eqb a 0 then a else a.

(* ---------------------------------------------------------------------------------------------- *)
(* elements, as far as the estimator and the environment hypothesis look at them *)

Record elem := {
  e_subs : list (nat * nat);   (* element.sub_elements: (reference_value_size, embedded_superdegree) *)
  e_pdeg : list nat;           (* per flat PHYSICAL component (row major in ufl_shape): the
                                  embedded_superdegree of the sub-element that owns the component *)
  e_sym : bool;                (* isinstance(element.pullback, SymmetricPullback) *)
  e_refsize : nat              (* element.reference_value_size *)
}.
Record tinfo := {
  t_deg : nat;                 (* degree the terminal handlers return for the whole terminal *)
  t_shape : list nat;          (* ufl_shape of the terminal *)
  t_elem : option elem         (* Some for Coefficient / Argument *)
}.
Definition cfg := nat -> nat -> tinfo.      (* terminal kind, id *)

Definition tinfo0 : tinfo := {| t_deg := 0; t_shape := []; t_elem := None |}.
Fixpoint mkcfg (l : list (nat * nat * tinfo)) : cfg :=
  fun k i => match l with
             | [] => tinfo0
             | (k', i', t) :: r => if Nat.eqb k k' && Nat.eqb i i' then t else mkcfg r k i
             end.

(* utils/indexflattening.py *)
Fixpoint strides (sh : list nat) : list nat :=
  match sh with [] => [] | _ :: t => fold_right Nat.mul 1 t :: strides t end.
Fixpoint flatten (c st : list nat) : nat :=
  match c, st with x :: c', s :: st' => x * s + flatten c' st' | _, _ => 0 end.

(* the loop of SumDegreeEstimator.indexed *)
Fixpoint walk (subs : list (nat * nat)) (comp offset : nat) : option nat :=
  match subs with
  | [] => None
  | (sz, d) :: t => if Nat.ltb comp (offset + sz) then Some d else walk t comp (offset + sz)
  end.

Fixpoint all_fixed (mi : list idx) : option (list nat) :=
  match mi with
  | [] => Some []
  | Fixed n :: t => match all_fixed t with Some l => Some (n :: l) | None => None end
  | Free _ :: _ => None
  end.

Definition is_formarg (k : nat) : bool := Nat.eqb k 0 || Nat.eqb k 1.   (* Coefficient, Argument *)

(* the degree [indexed] finds by its walk, None when it falls through to [return A].
   fx = false: the code as pinned (walks reference sizes with the physical flat component for every
   element with sub-elements); fx = true: the code after fixes/C18-indexed-physical-owner.diff, which
   walks only if the pullback is not symmetric and product(op.ufl_shape) == reference_value_size.
   Which variant /repo implements is decided on every run by the AST translator (C18_rules.py). *)
Definition shape_size (sh : list nat) : nat := fold_right Nat.mul 1 sh.
Definition indexed_walk (fx : bool) (ti : cfg) (a : expr) (mi : list idx) : option nat :=
  match a with
  | Term k id sh =>
      if is_formarg k then
        match all_fixed mi, t_elem (ti k id) with
        | Some c, Some el =>
            match e_subs el with
            | [] => None
            | _ => if Nat.eqb (length mi) (length sh)
                      && (negb fx || (negb (e_sym el) && Nat.eqb (shape_size sh) (e_refsize el)))
                   then walk (e_subs el) (flatten c (strides sh)) 0
                   else None
            end
        | _, _ => None
        end
      else None
  | _ => None
  end.
Definition indexed_rule (fx : bool) (ti : cfg) (a : expr) (mi : list idx) (A : nat) : nat :=
  match indexed_walk fx ti a mi with Some d => d | None => A end.

Definition int_exponent (b : expr) : option Z := match b with IntV z => Some z | _ => None end.

Section Estimate.
Variable quad : bool.          (* some domain of the expression has a quadrilateral/hexahedron cell *)
Variable ti : cfg.
Variable fx : bool.            (* which variant of [indexed] (see indexed_walk) *)

Fixpoint estimate (e : expr) : nat :=
  match e with
  | Zero _ _ | IntV _ | RealV _ _ | CplxV _ _ _ _ | RatV _ _ | Identity _ | PermSym _ => 0
  | Term k id _ => t_deg (ti k id)
  | Sum a b => max_degrees [estimate a; estimate b]
  | Product a b => add_degrees [estimate a; estimate b]
  | Division a b => add_degrees [estimate a; estimate b]
  | Power a b => power_rule (estimate a) (int_exponent b)
  | Abs a => abs_rule (estimate a)
  | Conj a | Real a | Imag a => estimate a
  | Indexed a mi => indexed_rule fx ti a mi (estimate a)
  | IndexSum a _ _ => estimate a
  | ComponentTensor a _ => estimate a
  | ListTensor es => max_degrees (map estimate es)
  | Conditional _ t f => max_degrees [estimate t; estimate f]
  | MinV a b | MaxV a b => max_degrees [estimate a; estimate b]
  | Math _ a => math_rule (estimate a)
  | Atan2 a b => atan2_rule (estimate a) (estimate b)
  | Bessel _ _ x => math_rule (estimate x)
  | Vari a _ => estimate a
  | Restricted _ a => estimate a
  | Grad a _ | RefGrad a _ | Div a _ | NablaGrad a _ | NablaDiv a _ | Curl a =>
      reduce_degree quad (estimate a)
  | RefValue a _ => estimate a
  | Transposed a => estimate a
  | Outer a b | Inner a b | Dot a b | Cross a b => add_degrees [estimate a; estimate b]
  (* _not_handled / compound_tensor_operator: the estimator raises; see [supported] *)
  | Perp _ | Trace _ | Determinant _ | Inverse _ | Cofactor _ | Deviatoric _ | Skew _ | Sym _ => 0
  end.

(* the estimator does not raise on e (conditions are traversed too) *)
Fixpoint supported (e : expr) : bool :=
  match e with
  | Zero _ _ | IntV _ | RealV _ _ | CplxV _ _ _ _ | RatV _ _ | Identity _ | PermSym _
  | Term _ _ _ => true
  | Sum a b | Product a b | Division a b | Power a b | MinV a b | MaxV a b | Atan2 a b
  | Bessel _ a b | Outer a b | Inner a b | Dot a b | Cross a b => supported a && supported b
  | Abs a | Conj a | Real a | Imag a | Indexed a _ | IndexSum a _ _ | ComponentTensor a _
  | Math _ a | Vari a _ | Restricted _ a | Grad a _ | RefGrad a _ | Div a _ | NablaGrad a _
  | NablaDiv a _ | Curl a | RefValue a _ | Transposed a => supported a
  | ListTensor es => forallb supported es
  | Conditional c t f => supportedc c && supported t && supported f
  | Perp _ | Trace _ | Determinant _ | Inverse _ | Cofactor _ | Deviatoric _ | Skew _ | Sym _ => false
  end
with supportedc (c : cond) : bool :=
  match c with
  | Cmp _ a b => supported a && supported b
  | AndC a b | OrC a b => supportedc a && supportedc b
  | NotC a => supportedc a
  end.

(* ---------------------------------------------------------------------------------------------- *)
(* The polynomial fragment of the property: sums, products, division by degree-0 expressions,
   non-negative integer powers, index notation, tensors, restrictions, variables, conj/real/imag,
   derivatives, and the compound products inner/dot/outer/cross/transposed. *)

Definition nonneg_int (b : expr) : bool :=
  match b with IntV z => (0 <=? z)%Z | _ => false end.

Fixpoint poly (e : expr) : bool :=
  match e with
  | Zero _ _ | IntV _ | RealV _ _ | CplxV _ _ _ _ | RatV _ _ | Identity _ | PermSym _
  | Term _ _ _ => true
  | Sum a b | Product a b | Outer a b | Inner a b | Dot a b | Cross a b => poly a && poly b
  | Division a b => poly a && poly b && Nat.eqb (estimate b) 0
  | Power a b => poly a && nonneg_int b
  | Conj a | Real a | Imag a | Indexed a _ | IndexSum a _ _ | ComponentTensor a _
  | Vari a _ | Restricted _ a | Grad a _ | RefGrad a _ | Div a _ | NablaGrad a _
  | NablaDiv a _ | Curl a | Transposed a => poly a
  | ListTensor es => forallb poly es
  | _ => false
  end.

(* degree bound that the environment hypothesis grants component c of terminal (k, id) *)
Definition cdeg (k id : nat) (c : list nat) : nat :=
  match t_elem (ti k id) with
  | Some el => if is_formarg k
               then nth (flatten c (strides (t_shape (ti k id)))) (e_pdeg el) (t_deg (ti k id))
               else t_deg (ti k id)
  | None => t_deg (ti k id)
  end.

(* guard of the partial theorem: wherever [indexed] takes a sub-element's degree, that degree
   dominates the degree of the sub-element that really owns the physical component *)
Definition indexed_ok (a : expr) (mi : list idx) : bool :=
  match indexed_walk fx ti a mi, a, all_fixed mi with
  | Some d, Term k id sh, Some c =>
      (if list_eq_dec Nat.eq_dec sh (t_shape (ti k id)) then true else false) && Nat.leb (cdeg k id c) d
  | Some _, _, _ => false
  | None, _, _ => true
  end.

Fixpoint guard (e : expr) : bool :=
  match e with
  | Zero _ _ | IntV _ | RealV _ _ | CplxV _ _ _ _ | RatV _ _ | Identity _ | PermSym _
  | Term _ _ _ => true
  | Sum a b | Product a b | Division a b | Power a b | MinV a b | MaxV a b | Atan2 a b
  | Bessel _ a b | Outer a b | Inner a b | Dot a b | Cross a b => guard a && guard b
  | Indexed a mi => indexed_ok a mi && guard a
  | Abs a | Conj a | Real a | Imag a | IndexSum a _ _ | ComponentTensor a _
  | Math _ a | Vari a _ | Restricted _ a | Grad a _ | RefGrad a _ | Div a _ | NablaGrad a _
  | NablaDiv a _ | Curl a | RefValue a _ | Transposed a
  | Perp a | Trace a | Determinant a | Inverse a | Cofactor a | Deviatoric a | Skew a | Sym a => guard a
  | ListTensor es => forallb guard es
  | Conditional _ t f => guard t && guard f
  end.

End Estimate.

(* the whole-terminal degree dominates every component's degree (embedded_superdegree of a mixed /
   symmetric element is at least that of its sub-elements) *)
Definition wf_tinfo (t : tinfo) : bool :=
  match t_elem t with Some el => forallb (fun d => Nat.leb d (t_deg t)) (e_pdeg el) | None => true end.
Definition wf_cfg (ti : cfg) : Prop := forall k id, wf_tinfo (ti k id) = true.
Definition wf_list (l : list (nat * nat * tinfo)) : bool := forallb (fun p => wf_tinfo (snd p)) l.

Lemma wf_list_cfg l : wf_list l = true -> wf_cfg (mkcfg l).
Proof.
  intros H k id. induction l as [|[[k' i'] t] r IH]; cbn in *; [reflexivity|].
  apply andb_prop in H. destruct H as [H1 H2].
  destruct (Nat.eqb k k' && Nat.eqb id i'); auto.
Qed.

(* elements whose component map is the identity: physical flat component = reference flat
   component, sub-element i owns the components [offset_i, offset_i + size_i) *)
Definition ident_pdeg (subs : list (nat * nat)) : list nat :=
  concat (map (fun p => repeat (snd p) (fst p)) subs).
Definition ident_elem (el : elem) : Prop := e_pdeg el = ident_pdeg (e_subs el).

Lemma nth_repeat_lt (d dflt : nat) : forall m n, n < m -> nth n (repeat d m) dflt = d.
Proof. induction m as [|m IH]; intros n H; [lia|]. destruct n; cbn; [reflexivity|]. apply IH. lia. Qed.

Lemma walk_ident subs : forall comp offset d dflt,
  walk subs comp offset = Some d -> offset <= comp ->
  nth (comp - offset) (ident_pdeg subs) dflt = d.
Proof.
  induction subs as [|[sz d0] t IH]; intros comp offset d dflt H Hle; cbn [walk] in H; [discriminate|].
  unfold ident_pdeg. cbn [map concat fst snd].
  destruct (Nat.ltb comp (offset + sz)) eqn:E.
  - injection H as <-. apply Nat.ltb_lt in E.
    rewrite app_nth1 by (rewrite repeat_length; lia).
    apply nth_repeat_lt. lia.
  - apply Nat.ltb_ge in E.
    rewrite app_nth2 by (rewrite repeat_length; lia).
    rewrite repeat_length.
    replace (comp - offset - sz) with (comp - (offset + sz)) by lia.
    apply IH; [exact H | lia].
Qed.

(* ---------------------------------------------------------------------------------------------- *)
(* The handler table of SumDegreeEstimator as data (regenerated from the source on every run and
   compared with this one), and its interpretation. *)

Inductive dexp :=
 | DConst (n : nat)                  (* return n *)
 | DNone                             (* return None *)
 | DArg (k : nat)                    (* return the k-th operand's degree *)
 | DAddAll | DMaxAll                 (* self._add_degrees(v, *ops) / self._max_degrees(v, *ops) *)
 | DAdd (l : list dexp) | DMax (l : list dexp)
 | DReduce                           (* self._reduce_degree(v, f) on the first operand *)
 | DIfAny (cs : list dexp) (t f : dexp)      (* if a or b: ... else: ... (truthiness of degrees) *)
 | DIfZero (c : dexp) (t f : dexp)           (* if a == 0: ... else: ... *)
 | DRaise                            (* _not_handled *)
 | DWarn (d : dexp)                  (* warnings.warn(...); return d *)
 | DCoordDegree                      (* extract_unique_domain(v).ufl_coordinate_element().embedded_superdegree *)
 | DIfCellwiseConstant (t f : dexp)
 | DElemSuper                        (* v.ufl_element().embedded_superdegree *)
 | DElemSuperDefault                 (* ... through element_replace_map, None -> default_degree *)
 | DPower                            (* the body of power, see gen_power *)
 | DIndexed.                         (* the body of indexed, see gen_walk *)

Inductive hname :=
 | h_constant_value | h_constant | h_geometric_quantity | h_spatial_coordinate | h_cell_coordinate
 | h_argument | h_coefficient | h_expr | h_multi_index | h_label | h_reference_value | h_variable
 | h_transposed | h_index_sum | h_indexed | h_component_tensor | h_list_tensor
 | h_positive_restricted | h_negative_restricted | h_conj | h_real | h_imag | h_sum
 | h_grad | h_reference_grad | h_nabla_grad | h_div | h_reference_div | h_nabla_div | h_curl
 | h_reference_curl | h_cell_avg | h_facet_avg | h_product | h_inner | h_dot | h_outer | h_cross
 | h_derivative | h_compound_derivative | h_compound_tensor_operator | h_variable_derivative
 | h_trace | h_determinant | h_cofactor | h_inverse | h_deviatoric | h_skew | h_sym
 | h_abs | h_division | h_power | h_atan2 | h_math_function | h_bessel_function | h_condition
 | h_conditional | h_min_value | h_max_value | h_coordinate_derivative | h_expr_list
 | h_expr_mapping.

Definition table (h : hname) : dexp :=
  match h with
  | h_constant_value | h_constant | h_cell_avg | h_facet_avg => DConst 0
  | h_geometric_quantity => DIfCellwiseConstant (DConst 0) DCoordDegree
  | h_spatial_coordinate => DCoordDegree
  | h_cell_coordinate => DConst 1
  | h_argument => DElemSuper
  | h_coefficient => DElemSuperDefault
  | h_expr => DWarn DAddAll
  | h_multi_index | h_label | h_condition => DNone
  | h_reference_value | h_variable | h_transposed | h_index_sum | h_component_tensor
  | h_positive_restricted | h_negative_restricted | h_conj | h_real | h_imag => DArg 0
  | h_indexed => DIndexed
  | h_list_tensor | h_sum | h_expr_list | h_expr_mapping => DMaxAll
  | h_grad | h_reference_grad | h_nabla_grad | h_div | h_reference_div | h_nabla_div | h_curl
  | h_reference_curl => DReduce
  | h_product | h_inner | h_dot | h_outer | h_cross | h_division => DAddAll
  | h_derivative | h_compound_derivative | h_compound_tensor_operator | h_variable_derivative
  | h_trace | h_determinant | h_cofactor | h_inverse | h_deviatoric | h_skew | h_sym => DRaise
  | h_abs => DIfZero (DArg 0) (DArg 0) (DArg 0)
  | h_power => DPower
  | h_atan2 => DIfAny [DArg 0; DArg 1] (DAdd [DMax [DArg 0; DArg 1]; DConst 2]) (DMax [DArg 0; DArg 1])
  | h_math_function => DIfAny [DArg 0] (DAdd [DArg 0; DConst 2]) (DArg 0)
  | h_bessel_function => DIfAny [DArg 1] (DAdd [DArg 1; DConst 2]) (DArg 1)
  | h_conditional => DMax [DArg 1; DArg 2]
  | h_min_value | h_max_value => DMax [DArg 0; DArg 1]
  | h_coordinate_derivative => DAdd [DArg 0; DArg 2]
  end.

(* interpretation over operand degrees; operands without a degree (multi indices, conditions,
   labels: None) are passed as 0, which no rule of the table reads *)
Section Interp.
Variable quad : bool.
Variable ops : list nat.
Variable special : nat.      (* value of the non-arithmetic rules (terminals, power, indexed) *)
Fixpoint dval (d : dexp) : option nat :=
  match d with
  | DConst n => Some n
  | DNone => Some 0
  | DArg k => Some (nth k ops 0)
  | DAddAll => Some (add_degrees ops)
  | DMaxAll => Some (max_degrees ops)
  | DAdd l => option_map add_degrees
                (fold_right (fun x acc => match dval x, acc with Some v, Some r => Some (v :: r) | _, _ => None end)
                            (Some []) l)
  | DMax l => option_map max_degrees
                (fold_right (fun x acc => match dval x, acc with Some v, Some r => Some (v :: r) | _, _ => None end)
                            (Some []) l)
  | DReduce => Some (reduce_degree quad (nth 0 ops 0))
  | DIfAny cs t f =>
      if existsb (fun c => match dval c with Some 0 => false | Some _ => true | None => false end) cs
      then dval t else dval f
  | DIfZero c t f => match dval c with Some 0 => dval t | Some _ => dval f | None => None end
  | DRaise => None
  | DWarn d => dval d
  | DCoordDegree | DIfCellwiseConstant _ _ | DElemSuper | DElemSuperDefault | DPower | DIndexed =>
      Some special
  end.
End Interp.

(* [estimate] is the interpretation of [table]: one lemma per operator node, for all operand degrees *)
Section TableAgrees.
Variables (quad : bool) (ti : cfg) (fx : bool).
Notation est := (estimate quad ti fx).
Lemma tbl_literal : dval quad [] 0 (table h_constant_value) = Some 0. Proof. reflexivity. Qed.
Lemma tbl_sum a b : dval quad [est a; est b] 0 (table h_sum) = Some (est (Sum a b)). Proof. reflexivity. Qed.
Lemma tbl_product a b : dval quad [est a; est b] 0 (table h_product) = Some (est (Product a b)). Proof. reflexivity. Qed.
Lemma tbl_division a b : dval quad [est a; est b] 0 (table h_division) = Some (est (Division a b)). Proof. reflexivity. Qed.
Lemma tbl_abs a : dval quad [est a] 0 (table h_abs) = Some (est (Abs a)).
Proof. cbn. unfold abs_rule. destruct (est a); reflexivity. Qed.
Lemma tbl_conj a : dval quad [est a] 0 (table h_conj) = Some (est (Conj a)). Proof. reflexivity. Qed.
Lemma tbl_real a : dval quad [est a] 0 (table h_real) = Some (est (Real a)). Proof. reflexivity. Qed.
Lemma tbl_imag a : dval quad [est a] 0 (table h_imag) = Some (est (Imag a)). Proof. reflexivity. Qed.
Lemma tbl_index_sum a i d : dval quad [est a; 0] 0 (table h_index_sum) = Some (est (IndexSum a i d)). Proof. reflexivity. Qed.
Lemma tbl_component_tensor a ix : dval quad [est a; 0] 0 (table h_component_tensor) = Some (est (ComponentTensor a ix)). Proof. reflexivity. Qed.
Lemma tbl_list_tensor es : dval quad (map est es) 0 (table h_list_tensor) = Some (est (ListTensor es)). Proof. reflexivity. Qed.
Lemma tbl_conditional c t f : dval quad [0; est t; est f] 0 (table h_conditional) = Some (est (Conditional c t f)). Proof. reflexivity. Qed.
Lemma tbl_min a b : dval quad [est a; est b] 0 (table h_min_value) = Some (est (MinV a b)). Proof. reflexivity. Qed.
Lemma tbl_max a b : dval quad [est a; est b] 0 (table h_max_value) = Some (est (MaxV a b)). Proof. reflexivity. Qed.
Lemma tbl_math f a : dval quad [est a] 0 (table h_math_function) = Some (est (Math f a)).
Proof. cbn. unfold math_rule. destruct (est a); reflexivity. Qed.
Lemma tbl_bessel k nu x : dval quad [est nu; est x] 0 (table h_bessel_function) = Some (est (Bessel k nu x)).
Proof. cbn. unfold math_rule. destruct (est x); reflexivity. Qed.
Lemma tbl_atan2 a b : dval quad [est a; est b] 0 (table h_atan2) = Some (est (Atan2 a b)).
Proof. cbn. unfold atan2_rule. destruct (est a), (est b); reflexivity. Qed.
Lemma tbl_variable a l : dval quad [est a; 0] 0 (table h_variable) = Some (est (Vari a l)). Proof. reflexivity. Qed.
Lemma tbl_restricted (p : bool) a : dval quad [est a] 0 (table (if p then h_positive_restricted else h_negative_restricted))
                           = Some (est (Restricted p a)). Proof. destruct p; reflexivity. Qed.
Lemma tbl_grad a g : dval quad [est a] 0 (table h_grad) = Some (est (Grad a g)). Proof. reflexivity. Qed.
Lemma tbl_reference_grad a g : dval quad [est a] 0 (table h_reference_grad) = Some (est (RefGrad a g)). Proof. reflexivity. Qed.
Lemma tbl_div a g : dval quad [est a] 0 (table h_div) = Some (est (Div a g)). Proof. reflexivity. Qed.
Lemma tbl_nabla_grad a g : dval quad [est a] 0 (table h_nabla_grad) = Some (est (NablaGrad a g)). Proof. reflexivity. Qed.
Lemma tbl_nabla_div a g : dval quad [est a] 0 (table h_nabla_div) = Some (est (NablaDiv a g)). Proof. reflexivity. Qed.
Lemma tbl_curl a : dval quad [est a] 0 (table h_curl) = Some (est (Curl a)). Proof. reflexivity. Qed.
Lemma tbl_reference_value a sh : dval quad [est a] 0 (table h_reference_value) = Some (est (RefValue a sh)). Proof. reflexivity. Qed.
Lemma tbl_transposed a : dval quad [est a] 0 (table h_transposed) = Some (est (Transposed a)). Proof. reflexivity. Qed.
Lemma tbl_outer a b : dval quad [est a; est b] 0 (table h_outer) = Some (est (Outer a b)). Proof. reflexivity. Qed.
Lemma tbl_inner a b : dval quad [est a; est b] 0 (table h_inner) = Some (est (Inner a b)). Proof. reflexivity. Qed.
Lemma tbl_dot a b : dval quad [est a; est b] 0 (table h_dot) = Some (est (Dot a b)). Proof. reflexivity. Qed.
Lemma tbl_cross a b : dval quad [est a; est b] 0 (table h_cross) = Some (est (Cross a b)). Proof. reflexivity. Qed.
Lemma tbl_power a b : dval quad [est a; est b] (power_rule (est a) (int_exponent b)) (table h_power)
                      = Some (est (Power a b)). Proof. reflexivity. Qed.
Lemma tbl_indexed a mi : dval quad [est a; 0] (indexed_rule fx ti a mi (est a)) (table h_indexed)
                         = Some (est (Indexed a mi)). Proof. reflexivity. Qed.
Lemma tbl_raise : dval quad [] 0 (table h_trace) = None /\ dval quad [] 0 (table h_determinant) = None
  /\ dval quad [] 0 (table h_inverse) = None /\ dval quad [] 0 (table h_cofactor) = None
  /\ dval quad [] 0 (table h_deviatoric) = None /\ dval quad [] 0 (table h_skew) = None
  /\ dval quad [] 0 (table h_sym) = None /\ dval quad [] 0 (table h_compound_tensor_operator) = None.
Proof. repeat split. Qed.
End TableAgrees.
