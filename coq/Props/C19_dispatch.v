(* C19 - handler resolution of MultiFunction.__init__ / Transformer.__init__:
     for c in classobject.mro(): handler_name = c._ufl_handler_name_ (default "ufl_type");
                                 if hasattr(self, handler_name): table[typecode] = handler_name; break
   Handler names are binary numbers (N); a class is given by the handler names along its mro (own name first,
   classes outside the UFL hierarchy contribute the default name); an algorithm class by the set of
   handler names it defines.  Theorems hold for EVERY mro list and EVERY handler set. *)
Require Import List Arith NArith Lia Bool.
Import ListNotations.

Definition resolve (has : N -> bool) (mro : list N) : option N := find has mro.

(* the selected handler is the one of the NEAREST class in the mro that defines one *)
Theorem C19_dispatch : forall has mro h,
  resolve has mro = Some h <->
  exists pre post, mro = pre ++ h :: post /\ has h = true /\ forall x, In x pre -> has x = false.
Proof.
  intros has. induction mro as [|a r IH]; intros h; simpl.
  - split; [discriminate|]. intros (pre & post & H & _). destruct pre; discriminate.
  - destruct (has a) eqn:Ha.
    + split.
      * intros H; inversion H; subst. exists [], r. simpl. repeat split; auto. intros x [].
      * intros (pre & post & Hm & Hh & Hpre). destruct pre as [|b pre]; simpl in Hm; inversion Hm; subst; auto.
        rewrite Hpre in Ha; [discriminate|simpl; auto].
    + rewrite IH. split.
      * intros (pre & post & -> & Hh & Hpre). exists (a :: pre), post. simpl. repeat split; auto.
        intros x [<-|Hx]; auto.
      * intros (pre & post & Hm & Hh & Hpre). destruct pre as [|b pre]; simpl in Hm; inversion Hm; subst.
        -- congruence.
        -- exists pre, post. repeat split; auto. intros x Hx. apply Hpre. simpl; auto.
Qed.

Theorem C19_dispatch_none : forall has mro,
  resolve has mro = None <-> forall x, In x mro -> has x = false.
Proof.
  intros has. induction mro as [|a r IH]; simpl.
  - split; auto. intros _ x [].
  - destruct (has a) eqn:Ha.
    + split; [discriminate|]. intros H. rewrite (H a) in Ha; [discriminate|auto].
    + rewrite IH. split; intros H x; [intros [<-|Hx]; auto|intros Hx; apply H; auto].
Qed.

(* every algorithm object has the default handler, so resolution never fails on an mro that ends in it *)
Corollary C19_dispatch_total : forall has mro dflt, has dflt = true -> In dflt mro ->
  exists h, resolve has mro = Some h.
Proof.
  intros has mro dflt Hd Hin. destruct (resolve has mro) eqn:E; eauto.
  rewrite C19_dispatch_none in E. rewrite (E dflt Hin) in Hd. discriminate.
Qed.

(* ---- single-inheritance view: a forest given by a parent function ---- *)
Section Forest.
Variable parent : nat -> option nat.     (* class -> nearest UFL base class *)
Variable name : nat -> N.                (* class -> its handler name *)
Variable dflt : N.                       (* "ufl_type" *)
Variable has : N -> bool.

Fixpoint chain (fuel : nat) (c : nat) : list N :=
  match fuel with
  | 0 => [dflt]
  | S f => name c :: match parent c with Some p => chain f p | None => [dflt] end
  end.

(* walk up the ancestors until one defines a handler *)
Fixpoint nearest (fuel : nat) (c : nat) : option N :=
  match fuel with
  | 0 => if has dflt then Some dflt else None
  | S f => if has (name c) then Some (name c)
           else match parent c with
                | Some p => nearest f p
                | None => if has dflt then Some dflt else None
                end
  end.

Theorem C19_dispatch_forest : forall fuel c, resolve has (chain fuel c) = nearest fuel c.
Proof.
  induction fuel; intros c; simpl.
  - destruct (has dflt); reflexivity.
  - destruct (has (name c)); auto. destruct (parent c); auto.
Qed.
End Forest.

(* membership in a handler-name list *)
Definition hasl (l : list N) (x : N) : bool := existsb (N.eqb x) l.

Lemma hasl_In : forall l x, hasl l x = true <-> In x l.
Proof.
  intros. unfold hasl. rewrite existsb_exists. split.
  - intros (y & Hy & He). apply N.eqb_eq in He. subst; auto.
  - intros H. exists x. split; auto. apply N.eqb_refl.
Qed.

(* cut the mro after the first default entry (every algorithm object defines the default) *)
Fixpoint upto (d : N) (l : list N) : list N :=
  match l with
  | [] => []
  | x :: r => if N.eqb x d then [x] else x :: upto d r
  end.

Lemma resolve_upto : forall has d l, has d = true -> resolve has (upto d l) = resolve has l.
Proof.
  intros has d. induction l; simpl; intros; auto.
  destruct (N.eqb a d) eqn:E; simpl.
  - apply N.eqb_eq in E. subst. rewrite H. reflexivity.
  - destruct (has a); auto.
Qed.

Print Assumptions C19_dispatch.
Print Assumptions C19_dispatch_forest.
