(* C24: the executable instance of the model over exact rationals (Qc = canonical Q, Leibniz equality),
   used by the generated correspondence files coq/Gen/C24_cases_*.v, the instantiated (closed)
   soundness theorem, and the refutations of totality (genuine defects of /repo). *)
Require Import UFLV.Core.Den.
Require Import UFLV.Props.C24_model.
Require Import QArith Qcanon Qreduction Lia.

Local Open Scope Qc_scope.

Definition qlt (x y : Qc) : bool := negb (Qle_bool y x).
Definition qeqb (x y : Qc) : bool := Qeq_bool x y.
Definition q_abs (x : Qc) : Qc := if Qle_bool 0 x then x else - x.
Definition q_cmp (op : cmpop) (x y : Qc) : bool :=
  match op with
  | CEQ => qeqb x y | CNE => negb (qeqb x y)
  | CLT => qlt x y | CGT => qlt y x
  | CLE => Qle_bool x y | CGE => Qle_bool y x
  end.
(* Python: min(a, b) = b if b < a else a ; max(a, b) = b if b > a else a *)
Definition q_min (x y : Qc) : Qc := if qlt y x then y else x.
Definition q_max (x y : Qc) : Qc := if qlt x y then y else x.

Definition QcA0 : ualg :=
  Build_ualg Qc 0 1 Qcplus Qcmult Qcminus Qcopp Qcdiv Qcinv Qcft
    (fun x => x) (fun x => x) (fun _ => 0) q_abs
    (fun _ _ => 0) (fun _ _ => 0) (fun _ _ => 0) (fun _ _ _ => 0)
    bool q_cmp andb orb negb (fun b x y => if b then x else y) q_min q_max.

(* exponent as an integer, if it is one *)
Definition q_int (y : Qc) : option Z :=
  match Qden (this y) with xH => Some (Qnum (this y)) | _ => None end.
Definition q_pow (x y : Qc) : Qc :=
  match q_int y with
  | Some Z0 => 1
  | Some (Zpos p) => @kpown QcA0 x (Pos.to_nat p)
  | Some (Zneg p) => / @kpown QcA0 x (Pos.to_nat p)
  | None => 0
  end.
Definition QcA : ualg :=
  Build_ualg Qc 0 1 Qcplus Qcmult Qcminus Qcopp Qcdiv Qcinv Qcft
    (fun x => x) (fun x => x) (fun _ => 0) q_abs
    (fun _ _ => 0) q_pow (fun _ _ => 0) (fun _ _ _ => 0)
    bool q_cmp andb orb negb (fun b x y => if b then x else y) q_min q_max.

(* Python primitives on Fractions *)
Definition q_pdiv (x y : Qc) : option Qc := if qeqb y 0 then None else Some (x / y).
Definition q_ppow (x y : Qc) : option Qc :=
  match q_int y with
  | Some (Zneg p) => if qeqb x 0 then None else Some (q_pow x y)     (* ZeroDivisionError *)
  | Some _ => Some (q_pow x y)
  | None => None                         (* non-integer exponent: float/complex result, not exact *)
  end.
Definition q_none2 (x y : Qc) : option Qc := None.
Definition q_pmath (f : mathfn) (x : Qc) : option Qc := None.
Definition q_pbessel (k : bkind) (x y : Qc) : option Qc := None.

(* data of a generated case *)
Inductive qval := QN (q : Q) | QT (l : list qval).
Fixpoint to_pyval (v : qval) : pyval QcA :=
  match v with
  | QN q => PNum QcA (Q2Qc q)
  | QT l => PTup QcA (map to_pyval l)
  end.
Inductive qentry :=
  | QCall (table : list (list nat * qval))       (* derivatives tuple -> returned value *)
  | QVal (v : qval).
Fixpoint tbl_get (t : list (list nat * qval)) (ds : list nat) : pyval QcA :=
  match t with
  | [] => PTup QcA []                   (* never requested by the run that produced the table *)
  | (d, v) :: t' => if leqb d ds then to_pyval v else tbl_get t' ds
  end.
Fixpoint map_get (m : list (nat * nat * qentry)) (k id : nat) : option (mentry QcA) :=
  match m with
  | [] => None
  | (k', id', en) :: t =>
      if Nat.eqb k k' && Nat.eqb id id' then
        Some (match en with QCall tb => MCall QcA (tbl_get tb) | QVal v => MVal QcA (to_pyval v) end)
      else map_get t k id
  end.

Definition py_eval_Q (cfix efix : bool) (m : list (nat * nat * qentry)) (x : list Q) (e : expr) (c : list nat)
  : option Q :=
  option_map this
    (py_call QcA (map_get m) (map Q2Qc x) 0 q_pdiv q_ppow q_none2 q_pmath q_pbessel (fun b => b) cfix efix e c).

(* ---------------------------------------------------------------------------------------------- *)
(* the hypotheses of the soundness theorem that concern the algebra and the primitives hold here   *)
Lemma q_pdiv_ok x y v : q_pdiv x y = Some v -> v = @kdiv QcA x y.
Proof. unfold q_pdiv. destruct (qeqb y 0); intros E; inversion E; reflexivity. Qed.
Lemma q_ppow_ok x y v : q_ppow x y = Some v -> v = @kpow QcA x y.
Proof.
  unfold q_ppow. cbn [kpow QcA]. destruct (q_int y) as [[|p|p]|]; try discriminate;
  try (intros E; inversion E; reflexivity).
  destruct (qeqb x 0); intros E; inversion E; reflexivity.
Qed.
Lemma q_pow0 x : @kpow QcA x (@k0 QcA) = @k1 QcA.
Proof. reflexivity. Qed.

Lemma this_of_pos p : this (@of_pos QcA p) = (Zpos p # 1)%Q.
Proof.
  induction p as [p IH|p IH|]; cbn [of_pos]; cbn [kadd kmul k1 QcA].
  - unfold Qcplus, Qcmult. cbn [this Q2Qc]. rewrite IH.
    rewrite <- (Qred_identity (Z.pos p~1 # 1)) by (apply Z.gcd_1_r).
    apply Qred_complete. rewrite !Qred_correct. unfold Qeq. cbn. lia.
  - unfold Qcplus, Qcmult. cbn [this Q2Qc]. rewrite IH.
    rewrite <- (Qred_identity (Z.pos p~0 # 1)) by (apply Z.gcd_1_r).
    apply Qred_complete. rewrite !Qred_correct. unfold Qeq. cbn. lia.
  - reflexivity.
Qed.
Lemma q_powp x p : @kpow QcA x (@of_pos QcA p) = @kpown QcA x (Pos.to_nat p).
Proof.
  cbn [kpow QcA]. unfold q_pow, q_int. rewrite this_of_pos. cbn [Qden Qnum].
  generalize (Pos.to_nat p). intros n. induction n as [|n IHn]; cbn; [reflexivity|]. rewrite IHn. reflexivity.
Qed.

Section Inst.
Variables cfix efix : bool.
Variable m : list (nat * nat * qentry).
Variable x : list Q.
Variable tsh : nat -> nat -> list nat.
Variable env : side -> nat -> nat -> list nat -> Qc.
Variable D DX : nat -> Qc -> Qc.
Notation MP := (map_get m).
Notation XP := (map Q2Qc x).
Notation ITER := (iterD QcA D).

(* the consistency of the mapping with the environment stays a hypothesis: it is what "a mapping
   for the terminals" means *)
Hypothesis H_mcall : forall s k id f ds c v, MP k id = Some (MCall QcA f) ->
  pv_num QcA (f ds) c = Some v -> length c = length (tsh k id) /\ v = ITER ds (env s k id c).
Hypothesis H_mval : forall s k id p c v, MP k id = Some (MVal QcA p) ->
  pv_num QcA p c = Some v -> length c = length (tsh k id) /\ v = env s k id c.
Hypothesis H_mval_d : forall s k id p c j ds, MP k id = Some (MVal QcA p) ->
  ITER (j :: ds) (env s k id c) = 0.
Hypothesis H_sc : forall s id i v, nth_error XP i = Some v -> v = env s KIND_SC id [i].
Hypothesis H_sc_sh : forall id, length (tsh KIND_SC id) = 1%nat.

(* the closed instance of the main theorem for the executable interpreter of the generated cases *)
Theorem C24_eval_sound_Q e c q :
  wf tsh e = true -> length c = length (shape e) -> py_eval_Q cfix efix m x e c = Some q ->
  exists v : Qc, this v = q /\ v = @den QcA env D DX 0 None (fun _ => 0%nat) e c.
Proof.
  intros W L E. unfold py_eval_Q in E.
  destruct (py_call QcA MP XP 0 q_pdiv q_ppow q_none2 q_pmath q_pbessel (fun b => b) cfix efix e c) as [v|] eqn:EV;
    [|discriminate E].
  cbn in E. inversion E; subst. exists v. split; [reflexivity|].
  eapply (C24_call_sound QcA MP XP 0 q_pdiv q_ppow q_none2 q_pmath q_pbessel (fun b => b) cfix efix tsh env D DX);
    eauto using q_pdiv_ok, q_ppow_ok, q_pow0, q_powp; try discriminate; try reflexivity.
Qed.
End Inst.

(* ---------------------------------------------------------------------------------------------- *)
(* Totality fails on well-formed inputs: genuine defects of the unchanged tree                     *)
Definition tsh_w (k id : nat) : list nat :=
  match k, id with 0%nat, 2%nat | 0%nat, 3%nat => [2%nat] | _, _ => [] end.
Definition map_w : list (nat * nat * qentry) :=
  [ (0, 0, QVal (QN (1#3))); (0, 1, QVal (QN (2#5)));
    (0, 2, QVal (QT [QN (1#2); QN (3#2)])); (0, 3, QVal (QT [QN 5; QN 7])) ]%nat.
(* conditional(lt(f, g), v, w) with scalar f, g and vector v, w *)
Definition cond_w : expr :=
  Conditional (Cmp CLT (Term 0 0 []) (Term 0 1 [])) (Term 0 2 [2%nat]) (Term 0 3 [2%nat]).

(* the expression is well-formed, every part of it evaluates, its mathematical value at component 0
   is v[0] = 1/2 -- and the interpreter (like the code: TypeError) fails *)
Theorem C24_conditional_refuted :
  exists e c, wf tsh_w e = true /\ length c = length (shape e) /\
    py_eval_Q false false map_w [] e c = None /\
    (* the same condition and the same branch evaluate on their own: *)
    py_eval_Q false false map_w [] (Conditional (Cmp CLT (Term 0 0 []) (Term 0 1 [])) (IntV 1) (IntV 0)) [] = Some 1%Q /\
    py_eval_Q false false map_w [] (Term 0 2 [2%nat]) c = Some (1#2)%Q.
Proof. exists cond_w, [0%nat]. vm_compute. repeat split; reflexivity. Qed.

(* indexing the conditional does not help: Indexed passes the component on *)
Theorem C24_conditional_indexed_refuted :
  wf tsh_w (Indexed cond_w [Fixed 0]) = true /\
  py_eval_Q false false map_w [] (Indexed cond_w [Fixed 0]) [] = None.
Proof. vm_compute. split; reflexivity. Qed.

(* what does hold: a conditional evaluated at the empty component (scalar branches) evaluates its
   condition at the empty component and then exactly the selected branch *)
Theorem C24_conditional_partial (A : ualg) mapping xpt ki pdiv ppow patan2 pmath pbessel bval cfix efix iv cnd t f :
  py_eval A mapping xpt ki pdiv ppow patan2 pmath pbessel bval cfix efix iv (Conditional cnd t f) [] [] =
  match py_evalc A mapping xpt ki pdiv ppow patan2 pmath pbessel bval cfix efix iv cnd [] with
  | Some true => py_eval A mapping xpt ki pdiv ppow patan2 pmath pbessel bval cfix efix iv t [] []
  | Some false => py_eval A mapping xpt ki pdiv ppow patan2 pmath pbessel bval cfix efix iv f [] []
  | None => None
  end.
Proof. destruct cfix; reflexivity. Qed.

(* with the repaired bodies (cfix / efix = true) the same witnesses evaluate to the mathematical value *)
Theorem C24_conditional_repaired :
  py_eval_Q true false map_w [] cond_w [0%nat] = Some (1#2)%Q /\
  py_eval_Q true false map_w [] (Indexed cond_w [Fixed 0]) [] = Some (1#2)%Q.
Proof. vm_compute. split; reflexivity. Qed.
Theorem C24_permsym_repaired :
  py_eval_Q false true map_w [] (PermSym 3) [0; 1; 2]%nat = Some 1%Q /\
  py_eval_Q false true map_w [] (PermSym 3) [0; 2; 1]%nat = Some (-1)%Q /\
  py_eval_Q false true map_w [] (PermSym 3) [0; 2; 2]%nat = Some 0%Q.
Proof. vm_compute. repeat split; reflexivity. Qed.

(* PermutationSymbol.evaluate returns a UFL object: no expression that reaches it evaluates to a
   number, e.g. eps[0,1,2] *)
Theorem C24_permsym_refuted :
  exists e c, wf tsh_w e = true /\ length c = length (shape e) /\ py_eval_Q false false map_w [] e c = None.
Proof. exists (PermSym 3), [0; 1; 2]%nat. vm_compute. repeat split; reflexivity. Qed.

(* rule table: which `evaluate` rule the model assumes for every node class (compared with the table
   that py/C24_ast.py extracts from the source on every run) *)
Inductive comp_arg := CPass | CEmpty.                   (* component passed on / () *)
Inductive rule :=
  | RBin (op : nat) (ca cb : comp_arg)                  (* a = op0.evaluate(..ca..); b = op1.evaluate(..cb..); return a <op> b *)
  | RUn (op : nat) (ca : comp_arg)                      (* a = op0.evaluate(..ca..); return <op>(a) *)
  | RCustom (tag : nat).                                (* loop/branch methods: body compared by digest *)


(* declared terminal shapes of a generated case *)
Fixpoint tsh_of (l : list (nat * nat * list nat)) (k id : nat) : list nat :=
  match l with
  | [] => []
  | (k', id', sh) :: t => if Nat.eqb k k' && Nat.eqb id id' then sh else tsh_of t k id
  end.

(* the rule table the model assumes for the straight-line `evaluate` methods; py/C24_ast.py extracts
   the same table from the source on every run and Gen/C24_rules.v compares them by reflexivity.
   RBin op ca cb : a = operands[0].evaluate(.., ca, ..); b = operands[1].evaluate(.., cb, ..); return a <op> b
   RUn  op ca    : a = operands[0].evaluate(.., ca, ..); return <op>(a)                                *)
Definition model_rules : list (nat * rule) :=
  [ (0, RBin 1 CPass CPass)    (* Division: a / b *)
  ; (1, RBin 2 CPass CPass)    (* Power: a ** b *)
  ; (2, RUn 1 CPass)           (* Abs: abs(a) *)
  ; (3, RUn 2 CPass)           (* Conj: a.conjugate() *)
  ; (4, RUn 3 CPass)           (* Real: a.real *)
  ; (5, RUn 4 CPass)           (* Imag: a.imag *)
  ; (6, RBin 3 CPass CPass)    (* EQ: bool(a == b) *)
  ; (7, RBin 4 CPass CPass)    (* NE *)
  ; (8, RBin 5 CPass CPass)    (* LE *)
  ; (9, RBin 6 CPass CPass)    (* GE *)
  ; (10, RBin 7 CPass CPass)   (* LT *)
  ; (11, RBin 8 CPass CPass)   (* GT *)
  ; (12, RBin 9 CPass CPass)   (* AndCondition: bool(a and b) *)
  ; (13, RBin 10 CPass CPass)  (* OrCondition *)
  ; (14, RUn 5 CPass)          (* NotCondition: bool(not a) *)
  ; (15, RUn 6 CPass)          (* Variable: a *)
  ; (16, RUn 6 CPass)          (* Restricted *)
  ; (17, RUn 6 CPass)          (* CellAvg *)
  ; (18, RUn 6 CPass)          (* FacetAvg *)
  ]%nat.

Print Assumptions C24_eval_sound.
Print Assumptions C24_call_sound.
Print Assumptions C24_eval_sound_Q.
Print Assumptions C24_stackdict_push_pop.
Print Assumptions C24_conditional_refuted.
Print Assumptions C24_permsym_refuted.
