(* C16 - the algebra behind lhs / rhs / functional / action / adjoint / energy_norm.

   An integrand with a test function v and a trial function u is, semantically, a function
   F : T -> T -> K of the VALUES of the two arguments (T = whatever an argument's value is: a family
   of components and derivatives; only its zero [o] matters).  The generated obligations
   (coq/Gen/C16_t2_*.v) prove, for the real outputs of lhs/rhs/functional,

       den(lhs F)        = F v u - F v o - F o u + F o o        (inclusion-exclusion, "e_vu")
       den(rhs F)        = - (F v o - F o o)                     ("- e_v")
       den(functional F) = F o o                                 ("e_0")

   This file proves, for ALL such F over an arbitrary UFL algebra, that these inclusion-exclusion
   parts ARE the bilinear / linear / constant parts of F whenever F is a sum of a part B(v,u)
   vanishing when either argument vanishes, a part L(v) vanishing with v, a part M(u) vanishing
   with u (the "u*f*dx" term that compute_form_with_arity's comment mentions) and a constant c;
   that consequently F = lhs - rhs + functional when M = 0; that such a decomposition is unique
   (so "lhs - rhs + functional = F" together with the vanishing of lhs/rhs at zero arguments, which
   are also generated obligations, determine lhs and rhs); and the algebraic facts used for action,
   energy_norm and adjoint (substitution commutes with the parts; the adjoint is an involution
   that maps parts to parts). *)
Require Import UFLV.Core.Alg.

Section C16.
Variable A : ualg.
Add Field Af16 : (kfield A).
Open Scope K_scope.

Variable T : Type.
Variable o : T.                       (* the zero value of an argument *)

(* inclusion-exclusion parts of an arbitrary F *)
Definition part_00 (F : T -> T -> A) : A := F o o.
Definition part_v (F : T -> T -> A) (v : T) : A := F v o - F o o.
Definition part_u (F : T -> T -> A) (u : T) : A := F o u - F o o.
Definition part_vu (F : T -> T -> A) (v u : T) : A := F v u - F v o - F o u + F o o.

(* what the code computes (as established per form by the generated obligations) *)
Definition sem_lhs (F : T -> T -> A) (v u : T) : A := part_vu F v u.
Definition sem_rhs (F : T -> T -> A) (v : T) : A := - part_v F v.
Definition sem_functional (F : T -> T -> A) : A := part_00 F.

Section Decomposition.
Variables (B : T -> T -> A) (L M : T -> A) (c : A).
Hypothesis B_v0 : forall u, B o u = k0.
Hypothesis B_u0 : forall v, B v o = k0.
Hypothesis L_0 : L o = k0.
Hypothesis M_0 : M o = k0.
Variable F : T -> T -> A.
Hypothesis F_def : forall v u, F v u = B v u + L v + M u + c.

Theorem C16_parts_recover :
  (forall v u, part_vu F v u = B v u) /\ (forall v, part_v F v = L v) /\
  (forall u, part_u F u = M u) /\ part_00 F = c.
Proof.
  repeat split; intros; unfold part_vu, part_v, part_u, part_00; rewrite !F_def;
    rewrite ?B_v0, ?B_u0, ?L_0, ?M_0; ring.
Qed.

(* lhs is the bilinear part, rhs minus the linear part, functional the constant *)
Corollary C16_lhs_rhs_functional :
  (forall v u, sem_lhs F v u = B v u) /\ (forall v, sem_rhs F v = - L v) /\ sem_functional F = c.
Proof.
  destruct C16_parts_recover as (H1 & H2 & _ & H4). unfold sem_lhs, sem_rhs, sem_functional.
  repeat split; intros; rewrite ?H1, ?H2, ?H4; reflexivity.
Qed.

(* F = lhs - rhs (+ functional) exactly when there is no trial-only part *)
Theorem C16_F_eq_lhs_minus_rhs :
  (forall u, M u = k0) ->
  forall v u, F v u = sem_lhs F v u - sem_rhs F v + sem_functional F.
Proof.
  intros HM v u. destruct C16_lhs_rhs_functional as (H1 & H2 & H3).
  rewrite H1, H2, H3, F_def, HM. ring.
Qed.

Corollary C16_system : (forall u, M u = k0) -> c = k0 ->
  forall v u, F v u = sem_lhs F v u - sem_rhs F v.
Proof.
  intros HM Hc v u. rewrite (C16_F_eq_lhs_minus_rhs HM v u).
  destruct C16_lhs_rhs_functional as (_ & _ & H3). rewrite H3, Hc. ring.
Qed.

(* the trial-only part is dropped by all three (the quirk noted in compute_form_with_arity) *)
Theorem C16_trial_only_dropped :
  forall v u, sem_lhs F v u - sem_rhs F v + sem_functional F = F v u - M u.
Proof.
  intros v u. destruct C16_lhs_rhs_functional as (H1 & H2 & H3).
  rewrite H1, H2, H3, F_def. ring.
Qed.
End Decomposition.

(* uniqueness: a decomposition into parts vanishing at zero arguments is unique, so the generated
   obligations "lhs - rhs + functional = F", "lhs|v=0 = lhs|u=0 = 0", "rhs|v=0 = 0", "rhs does not
   depend on u" pin down lhs, rhs and functional *)
Theorem C16_decomposition_unique
  (B B' : T -> T -> A) (L L' : T -> A) (c c' : A) :
  (forall u, B o u = k0) -> (forall v, B v o = k0) -> L o = k0 ->
  (forall u, B' o u = k0) -> (forall v, B' v o = k0) -> L' o = k0 ->
  (forall v u, B v u + L v + c = B' v u + L' v + c') ->
  (forall v u, B v u = B' v u) /\ (forall v, L v = L' v) /\ c = c'.
Proof.
  intros b1 b2 l0 b1' b2' l0' E.
  assert (Hc : c = c').
  { pose proof (E o o) as H. rewrite b1, b1', l0, l0' in H.
    transitivity (k0 + k0 + c); [ring|]. rewrite H. ring. }
  assert (HL : forall v, L v = L' v).
  { intros v. pose proof (E v o) as H. rewrite b2, b2', <- Hc in H.
    transitivity (k0 + L v + c - c); [ring|]. rewrite H. ring. }
  repeat split; auto.
  intros v u. pose proof (E v u) as H. rewrite <- Hc, <- HL in H.
  transitivity (B v u + L v + c - L v - c); [ring|]. rewrite H. ring.
Qed.

(* the parts of a bi-additive / additive decomposition are bi-additive / additive: lhs is bilinear
   and rhs linear as soon as the terms of F are (multilinearity of the terms is property C14) *)
Section Additive.
Variable plus : T -> T -> T.
Variables (B : T -> T -> A) (L : T -> A) (c : A).
Hypothesis B_add_l : forall v v' u, B (plus v v') u = B v u + B v' u.
Hypothesis B_add_r : forall v u u', B v (plus u u') = B v u + B v u'.
Hypothesis L_add : forall v v', L (plus v v') = L v + L v'.
Hypothesis plus_o : plus o o = o.
Let F v u := B v u + L v + c.

Lemma add_zero_l : forall u, B o u = k0.
Proof. intros u. pose proof (B_add_l o o u) as H. rewrite plus_o in H.
  transitivity (B o u + B o u - B o u); [ring|]. rewrite <- H. ring. Qed.
Lemma add_zero_r : forall v, B v o = k0.
Proof. intros v. pose proof (B_add_r v o o) as H. rewrite plus_o in H.
  transitivity (B v o + B v o - B v o); [ring|]. rewrite <- H. ring. Qed.
Lemma add_zero_L : L o = k0.
Proof. pose proof (L_add o o) as H. rewrite plus_o in H.
  transitivity (L o + L o - L o); [ring|]. rewrite <- H. ring. Qed.

Theorem C16_lhs_bilinear_rhs_linear :
  (forall v v' u, sem_lhs F (plus v v') u = sem_lhs F v u + sem_lhs F v' u) /\
  (forall v u u', sem_lhs F v (plus u u') = sem_lhs F v u + sem_lhs F v u') /\
  (forall v v', sem_rhs F (plus v v') = sem_rhs F v + sem_rhs F v') /\
  (forall v u, F v u = sem_lhs F v u - sem_rhs F v + sem_functional F).
Proof.
  assert (P := C16_lhs_rhs_functional B L (fun _ => k0) c add_zero_l add_zero_r add_zero_L eq_refl F).
  destruct P as (H1 & H2 & H3). { intros; unfold F; ring. }
  repeat split; intros; rewrite ?H1, ?H2, ?H3, ?B_add_l, ?B_add_r, ?L_add; unfold F; ring.
Qed.
End Additive.

(* action / energy norm: substituting the trial function commutes with taking parts; the action of
   the bilinear part on f is the f-linear part, energy_norm is the diagonal *)
Definition sem_action (F : T -> T -> A) (f : T) : T -> A := fun v => F v f.
Definition sem_energy (F : T -> T -> A) (f : T) : A := F f f.

Theorem C16_action_energy (F : T -> T -> A) (f : T) :
  (forall v, sem_action (sem_lhs F) f v = part_vu F v f) /\
  sem_energy F f = sem_action F f f /\
  (forall v, sem_action F f v - sem_action F f o = part_vu F v f + part_v F v).
Proof.
  repeat split; intros; unfold sem_action, sem_energy, sem_lhs, part_vu, part_v; try reflexivity; ring.
Qed.

(* adjoint: conj of the form with the two slots exchanged.  With conj an involutive ring morphism
   it is an involution and maps the bilinear part to the bilinear part of the adjoint *)
Definition sem_adjoint (F : T -> T -> A) : T -> T -> A := fun v u => kconj (F u v).

Section Adjoint.
Hypothesis conj_invol : forall x : A, kconj (kconj x) = x.
Hypothesis conj_add : forall x y : A, kconj (x + y) = kconj x + kconj y.
Hypothesis conj_sub : forall x y : A, kconj (x - y) = kconj x - kconj y.

Theorem C16_adjoint_involution (F : T -> T -> A) v u : sem_adjoint (sem_adjoint F) v u = F v u.
Proof. unfold sem_adjoint. apply conj_invol. Qed.

Theorem C16_adjoint_parts (F : T -> T -> A) v u :
  part_vu (sem_adjoint F) v u = sem_adjoint (part_vu F) v u.
Proof.
  unfold part_vu, sem_adjoint. rewrite conj_add, !conj_sub. ring.
Qed.
End Adjoint.

(* ------------------------------------------------------------------------------------------
   Finding (adjoint on MixedFunctionSpace forms): compute_form_adjoint treats every block (i,j)
   separately and gives the new arguments "the number AND the part of the other one".  Model:
   a blocked form is sum_{i,j} a_ij(v_i, u_j) with v, u families of argument values indexed by the
   part.  The true adjoint is  (w, z) |-> conj(a(z, w)) = sum_ij conj(a_ij(z_i, w_j));
   the code produces            (w, z) |-> sum_ij conj(a_ij(z_j, w_i))   (block (i,j) stays at
   position (i,j), its slots are exchanged but the parts are not transposed). *)
Section BlockedAdjoint.
Variable blk : nat -> nat -> T -> T -> A.        (* a_ij *)
Variable n : nat.                                 (* number of parts *)
Definition blocked (v u : nat -> T) : A :=
  ksum n (fun i => ksum n (fun j => blk i j (v i) (u j))).
Definition adjoint_true (w z : nat -> T) : A := kconj (blocked z w).
Definition adjoint_code (w z : nat -> T) : A :=
  ksum n (fun i => ksum n (fun j => kconj (blk i j (z j) (w i)))).

Hypothesis conj_add : forall x y : A, kconj (x + y) = kconj x + kconj y.
Hypothesis conj_zero : kconj k0 = (k0 : A).

Lemma conj_ksum m (f : nat -> A) : kconj (ksum m f) = ksum m (fun k => kconj (f k)).
Proof. induction m as [|m IH]; cbn; [apply conj_zero|]. rewrite conj_add, IH. reflexivity. Qed.

(* partial: correct when only diagonal blocks are present *)
Theorem C16_adjoint_parts_partial :
  (forall i j x y, i <> j -> blk i j x y = k0) ->
  forall w z, adjoint_code w z = adjoint_true w z.
Proof.
  intros Hd w z. unfold adjoint_code, adjoint_true, blocked.
  rewrite conj_ksum. apply ksum_ext. intros i _. rewrite conj_ksum. apply ksum_ext. intros j _.
  destruct (Nat.eq_dec i j) as [->|ne]; [reflexivity|].
  rewrite (Hd i j _ _ ne), (Hd i j _ _ ne). reflexivity.
Qed.
End BlockedAdjoint.
End C16.

(* refuted in general: a 2-part form whose only block is (1,0); any algebra with 0 <> 1 separates
   the code's result from the adjoint (T = K). *)
Section Refuted.
Variable A : ualg.
Add Field Af16r : (kfield A).
Open Scope K_scope.
Hypothesis one_neq_zero : (k1 : A) <> k0.
Hypothesis conj_one : kconj (k1 : A) = k1.
Hypothesis conj_zero : kconj (k0 : A) = k0.

(* a_10(x, y) = x  (e.g. the block  v_1 * c * dx  evaluated with c = 1 ... it only reads its test slot) *)
Definition wblk (i j : nat) (x y : A) : A :=
  match i, j with 1, 0 => x | _, _ => k0 end.

Theorem C16_adjoint_parts_refuted :
  exists (w z : nat -> A),
    adjoint_code A A wblk 2 w z <> adjoint_true A A wblk 2 w z.
Proof.
  set (w := fun _ : nat => (k0 : A)).
  set (z := fun i : nat => match i with 0 => (k0 : A) | _ => k1 end).
  exists w, z.
  assert (Hc : adjoint_code A A wblk 2 w z = k0).
  { unfold adjoint_code, wblk, w, z. cbn. rewrite !conj_zero. ring. }
  assert (Ht : adjoint_true A A wblk 2 w z = k1).
  { unfold adjoint_true, blocked, wblk, w, z. cbn.
    match goal with |- kconj ?X = _ => replace X with (k1 : A) by ring end. apply conj_one. }
  rewrite Hc, Ht. intro E. apply one_neq_zero. symmetry. exact E.
Qed.
End Refuted.

Print Assumptions C16_parts_recover.
Print Assumptions C16_F_eq_lhs_minus_rhs.
Print Assumptions C16_decomposition_unique.
Print Assumptions C16_lhs_bilinear_rhs_linear.
Print Assumptions C16_action_energy.
Print Assumptions C16_adjoint_parts.
Print Assumptions C16_adjoint_parts_partial.
Print Assumptions C16_adjoint_parts_refuted.
