(* C10: the full (unguarded) statements are false for the faithful models -- the genuine
   defects of the unchanged tree, each with its witness, evaluated in the field Qc of canonical
   rationals.  The guarded statements that do hold are in C10_thm.v / C10_expand.v. *)
Require Import QArith Qcanon.
Require Import UFLV.Core.Den UFLV.Props.C10_model UFLV.Props.C10_expand.
Import ListNotations.
Close Scope Q_scope.
Open Scope nat_scope.

Definition QcA : ualg :=
  Build_ualg Qc 0%Qc 1%Qc Qcplus Qcmult Qcminus Qcopp Qcdiv Qcinv Qcft
    (fun x => x) (fun x => x) (fun _ => 0%Qc) (fun x => x)
    (fun _ x => x) (fun x _ => x) (fun x _ => x) (fun _ x _ => x)
    bool (fun _ _ _ => true) andb orb negb (fun (b : bool) x y => if b then x else y)
    (fun x _ => x) (fun x _ => x).
Definition noD : nat -> Qc -> Qc := fun _ _ => 0%Qc.

(* 1. index capture in IndexReplacer: as_vector(sum_j A[i,j]*c[j], i)[j]  ->  sum_j A[j,j]*c[j] *)
Definition cap_A := Term 0 0 [2; 2].
Definition cap_c := Term 0 1 [2].
Definition cap_in : expr :=
  Indexed (ComponentTensor
             (IndexSum (Product (Indexed cap_A [Free 0; Free 1]) (Indexed cap_c [Free 1])) 1 2)
             [(0, 2)]) [Free 1].
Definition cap_out : expr :=
  IndexSum (Product (Indexed cap_A [Free 1; Free 1]) (Indexed cap_c [Free 1])) 1 2.
Definition cap_env : side -> nat -> nat -> list nat -> Qc :=
  fun _ _ id c => match id, c with
                  | 0, [0; 1] => 1%Qc
                  | 1, [1] => 1%Qc
                  | _, _ => 0%Qc
                  end.

Theorem C10_remove_refuted :
  exists e e', rk e 0 = true /\ rct e = Some e' /\ rct_safe e = false /\ hygienic e = false /\
    exists (A : ualg) env D DX ki s rho, @den A env D DX ki s rho e' [] <> @den A env D DX ki s rho e [].
Proof.
  exists cap_in, cap_out. repeat split; try (vm_compute; reflexivity).
  exists QcA, cap_env, noD, noD, 0%Qc, None, (fun _ => 0).
  intro H. apply (f_equal this) in H. vm_compute in H. discriminate H.
Qed.

(* 2. (fixed in /repo by commit 826ad17; the model follows the repaired code)  A Zero all of whose
      free indices are replaced by fixed indices becomes an index-free Zero: regression example *)
Definition zf_f := Term 0 0 [2].
Definition zf_in : expr :=
  Indexed (ComponentTensor
             (Indexed (ListTensor [Zero [] [(0, 2)]; Indexed zf_f [Free 0]]) [Free 1])
             [(0, 2); (1, 2)]) [Fixed 1; Fixed 0].
Example C10_remove_zero_fixed :
  rk zf_in 0 = true /\ hygienic zf_in = true /\ rct_safe zf_in = true /\
  rct zf_in = Some (Indexed (ListTensor [Zero [] []; Indexed zf_f [Fixed 1]]) [Fixed 0]).
Proof. repeat split; vm_compute; reflexivity. Qed.

(* 3. expand_indices re-uses the label-keyed variable cache across component contexts:
      v = variable(f);  v[0] + 2*v[1]  ->  3*f[0] *)
Definition vc_f := Term 0 0 [2].
Definition vc_in : expr :=
  Sum (Indexed (Vari vc_f 0) [Fixed 0]) (Product (IntV 2) (Indexed (Vari vc_f 0) [Fixed 1])).
Definition vc_env : side -> nat -> nat -> list nat -> Qc :=
  fun _ _ _ c => match c with [1] => 1%Qc | _ => 0%Qc end.
Theorem C10_expand_refuted :
  exists e e', rk e 0 = true /\ expand_indices e = Some e' /\ var_ctx_clash e = true /\
    exists (A : ualg) env D DX ki s rho, @den A env D DX ki s rho e' [] <> @den A env D DX ki s rho e [].
Proof.
  exists vc_in. eexists. repeat split; try (vm_compute; reflexivity).
  exists QcA, vc_env, noD, noD, 0%Qc, None, (fun _ => 0).
  intro H. apply (f_equal this) in H. vm_compute in H. discriminate H.
Qed.

Print Assumptions C10_remove_refuted.
Print Assumptions C10_expand_refuted.
