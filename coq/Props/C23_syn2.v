(* C23: syntactic theorems (all constructors): rejection in complex mode, real-mode removal. *)
Require Import UFLV.Core.Den.
Require Import UFLV.Props.C23_model.
Require Import UFLV.Props.C23_syn.

Ltac fin_true :=
  repeat first [ reflexivity | rewrite orb_true_r | rewrite orb_true_l | progress simpl ].

Section FX.
Variable cfn : mathfn -> bool.
Variable cbs : bkind -> bool.
Local Notation check := (C23_model.check cfn cbs).
Local Notation checkc := (C23_model.checkc cfn cbs).
Local Notation check_list := (C23_model.check_list cfn cbs).
Local Notation ty_of := (C23_model.ty_of cfn cbs).
Local Notation bad_site := (C23_model.bad_site cfn cbs).

(* accepted => no ordering site anywhere has a complex (or untypable) operand *)
Definition Pok (e : expr) : Prop :=
  forall e' t, check e = Some (e', t) -> existsb bad_site (sites e) = false.
Definition Qok (c : cond) : Prop :=
  forall c' t, checkc c = Some (c', t) -> existsb bad_site (csites c) = false.

Lemma ok_list es :
  (forall x, In x es -> Pok x) ->
  forall es' ts, check_list es = Some (es', ts) -> existsb bad_site (sites_list es) = false.
Proof.
  induction es as [|x es IH]; intros HP es' ts H; simpl in H.
  - reflexivity.
  - dcheck. inv H. simpl. rewrite existsb_app'.
    rewrite (HP x (or_introl eq_refl) _ _ E), (IH (fun y Hy => HP y (or_intror Hy)) _ _ eq_refl).
    reflexivity.
Qed.

Lemma bad_site_false a b a' ta b' tb :
  check a = Some (a', ta) -> check b = Some (b', tb) -> is_complex ta || is_complex tb = false ->
  bad_site (a, b) = false.
Proof. intros E1 E2 E3. unfold C23_model.bad_site, C23_model.ty_of; simpl. rewrite E1, E2. exact E3. Qed.
Lemma bad_site_true a b a' ta b' tb :
  check a = Some (a', ta) -> check b = Some (b', tb) -> is_complex ta || is_complex tb = true ->
  bad_site (a, b) = true.
Proof. intros E1 E2 E3. unfold C23_model.bad_site, C23_model.ty_of; simpl. rewrite E1, E2. exact E3. Qed.

Lemma ok_both : (forall e, Pok e) /\ (forall c, Qok c).
Proof.
  apply size_ind2.
  - intros e IHe IHc e' t H.
    destruct e; try rewrite check_ListTensor in H; simpl in H; unf;
      try reflexivity;
      try (dcheck; inv H; simpl; rewrite ?existsb_app';
           try (erewrite bad_site_false by eassumption);
           repeat match goal with
           | E : check ?x = Some (?y, _) |- _ =>
               rewrite (IHe x ltac:(simpl; lia) _ _ E); clear E
           | E : checkc ?x = Some (?y, _) |- _ =>
               rewrite (IHc x ltac:(simpl; lia) _ _ E); clear E
           end; reflexivity).
    + dcheck. inv H. rewrite sites_ListTensor.
      eapply ok_list; [|exact E]. intros x Hx. apply IHe. rewrite size_ListTensor.
      apply In_size_list, Hx.
  - intros c IHe IHc c' t H.
    destruct c; simpl in H; dcheck; inv H; simpl;
      try match goal with E : ordering _ = _ |- _ => rewrite E end; simpl; rewrite ?existsb_app';
      try (erewrite bad_site_false by eassumption);
      repeat match goal with
      | E : check ?x = Some (?y, _) |- _ => rewrite (IHe x ltac:(simpl; lia) _ _ E); clear E
      | E : checkc ?x = Some (?y, _) |- _ => rewrite (IHc x ltac:(simpl; lia) _ _ E); clear E
      end; try reflexivity.
Qed.

(* rejected => some ordering site has a complex operand: the analysis rejects for no other reason *)
Definition Pno (e : expr) : Prop := check e = None -> existsb bad_site (sites e) = true.
Definition Qno (c : cond) : Prop := checkc c = None -> existsb bad_site (csites c) = true.

Lemma no_list es :
  (forall x, In x es -> Pno x) -> check_list es = None -> existsb bad_site (sites_list es) = true.
Proof.
  induction es as [|x es IH]; intros HP H; simpl in H.
  - discriminate.
  - simpl. rewrite existsb_app'.
    destruct (check x) as [[x' tx]|] eqn:E.
    + destruct (check_list es) as [[l' ts]|] eqn:E2; [discriminate|].
      rewrite (IH (fun y Hy => HP y (or_intror Hy)) eq_refl). fin_true.
    + rewrite (HP x (or_introl eq_refl) E). reflexivity.
Qed.

Ltac dnone :=
  repeat match goal with
  | H : context [match check ?x with _ => _ end] |- _ =>
      let E := fresh "E" in destruct (check x) as [[? ?]|] eqn:E
  | H : context [match checkc ?x with _ => _ end] |- _ =>
      let E := fresh "E" in destruct (checkc x) as [[? ?]|] eqn:E
  | H : context [match check_list ?x with _ => _ end] |- _ =>
      let E := fresh "E" in destruct (check_list x) as [[? ?]|] eqn:E
  | H : context [if ?b then _ else _] |- _ =>
      let E := fresh "E" in destruct b eqn:E
  end.

Lemma no_both : (forall e, Pno e) /\ (forall c, Qno c).
Proof.
  apply size_ind2.
  - intros e IHe IHc H.
    destruct e; try rewrite check_ListTensor in H; simpl in H; unf;
      try discriminate H;
      try (dnone; try discriminate H; simpl; rewrite ?existsb_app';
           try (erewrite bad_site_true by eassumption);
           repeat match goal with
           | E : check ?x = None |- _ => rewrite (IHe x ltac:(simpl; lia) E); clear E
           | E : checkc ?x = None |- _ => rewrite (IHc x ltac:(simpl; lia) E); clear E
           end; fin_true).
    + dnone; try discriminate H. change (existsb bad_site (sites_list es) = true).
      apply no_list; [|exact E]. intros x Hx. apply IHe. rewrite size_ListTensor.
      apply In_size_list, Hx.
  - intros c IHe IHc H.
    destruct c; simpl in H; dnone; try discriminate H; simpl;
      try match goal with E : ordering _ = _ |- _ => rewrite E end; simpl; rewrite ?existsb_app';
      try (erewrite bad_site_true by eassumption);
      repeat match goal with
      | E : check ?x = None |- _ => rewrite (IHe x ltac:(simpl; lia) E); clear E
      | E : checkc ?x = None |- _ => rewrite (IHc x ltac:(simpl; lia) E); clear E
      end; fin_true.
Qed.

(* ---- the stated theorems ---- *)

(* C23_wrap: every ordering comparison / min / max of an accepted output has operands of the form
   Real(.) (or a real literal / Zero, which is what Real.__new__ returns for them) *)
Theorem C23_wrap : forall e e' t,
  check e = Some (e', t) -> forall a b, In (a, b) (sites e') -> wrapped a = true /\ wrapped b = true.
Proof.
  intros e e' t H a b Hin.
  pose proof (proj1 (wrap_both cfn cbs) e e' t H) as W.
  rewrite forallb_forall in W. specialize (W _ Hin). unfold wrapped_site in W; simpl in W.
  apply andb_true_iff in W. exact W.
Qed.

(* C23_reject: an ordering comparison / min / max anywhere in e with an operand of nodetype complex
   makes the whole check fail (ComplexComparisonError) *)
Theorem C23_reject : forall e a b ta tb,
  In (a, b) (sites e) -> ty_of a = Some ta -> ty_of b = Some tb ->
  ta = TComplex \/ tb = TComplex -> check e = None.
Proof.
  intros e a b ta tb Hin Ha Hb Hc.
  destruct (check e) as [[e' t]|] eqn:E; [|reflexivity].
  pose proof (proj1 ok_both e e' t E) as W.
  assert (X : existsb bad_site (sites e) = true).
  { apply existsb_exists. exists (a, b). split; [exact Hin|].
    unfold C23_model.bad_site; simpl. rewrite Ha, Hb. destruct Hc; subst; simpl; fin_true. }
  congruence.
Qed.

(* ... and that is the only reason for rejecting *)
Theorem C23_reject_only : forall e,
  check e = None ->
  exists a b, In (a, b) (sites e) /\
    (ty_of a = None \/ ty_of b = None \/ ty_of a = Some TComplex \/ ty_of b = Some TComplex).
Proof.
  intros e H. pose proof (proj1 no_both e H) as W.
  apply existsb_exists in W. destruct W as [[a b] [Hin Hb]]. exists a, b. split; [exact Hin|].
  unfold C23_model.bad_site in Hb; simpl in Hb.
  destruct (ty_of a) as [[]|]; destruct (ty_of b) as [[]|]; simpl in Hb; try discriminate; auto.
Qed.

End FX.

(* ---- real mode ---- *)
Definition Prm (e : expr) : Prop :=
  (remove e = None -> has_ic e = true) /\
  (forall e', remove e = Some e' -> has_ic e = false /\ cfree e' = true).
Definition Qrm (c : cond) : Prop :=
  (removec c = None -> has_icc c = true) /\
  (forall c', removec c = Some c' -> has_icc c = false /\ cfreec c' = true).

Lemma rm_list es :
  (forall x, In x es -> Prm x) ->
  (remove_list es = None -> has_ic_list es = true) /\
  (forall es', remove_list es = Some es' -> has_ic_list es = false /\ cfree_list es' = true).
Proof.
  induction es as [|x es IH]; intros HP; simpl.
  - split; [discriminate|]. intros es' H; inv H. split; reflexivity.
  - destruct (HP x (or_introl eq_refl)) as [Hn Hs].
    destruct (IH (fun y Hy => HP y (or_intror Hy))) as [Ln Ls].
    destruct (remove x) as [x'|] eqn:E.
    + destruct (Hs _ eq_refl) as [H1 H2]. rewrite H1. simpl.
      destruct (remove_list es) as [l'|] eqn:E2.
      * split; [discriminate|]. intros es' H; inv H. destruct (Ls _ eq_refl) as [H3 H4].
        simpl. rewrite H2, H3, H4. split; reflexivity.
      * split; [intros _; apply Ln; reflexivity | discriminate].
    + rewrite (Hn eq_refl). split; [reflexivity | discriminate].
Qed.

Ltac drm :=
  repeat match goal with
  | |- context [remove ?x] =>
      let E := fresh "E" in
      let H1 := fresh "Hn" in let H2 := fresh "Hs" in
      lazymatch goal with
      | IHe : forall y, size y < _ -> Prm y |- _ =>
          destruct (IHe x ltac:(simpl; lia)) as [H1 H2]
      end;
      destruct (remove x) eqn:E;
      [ destruct (H2 _ eq_refl) as [? ?] | pose proof (H1 eq_refl) ]; clear H1 H2
  | |- context [removec ?x] =>
      let E := fresh "E" in
      let H1 := fresh "Hn" in let H2 := fresh "Hs" in
      lazymatch goal with
      | IHc : forall y, csize y < _ -> Qrm y |- _ =>
          destruct (IHc x ltac:(simpl; lia)) as [H1 H2]
      end;
      destruct (removec x) eqn:E;
      [ destruct (H2 _ eq_refl) as [? ?] | pose proof (H1 eq_refl) ]; clear H1 H2
  end.
Ltac rm_fin :=
  simpl; split; [ try discriminate; intros _ | try discriminate; intros ? HH; inv HH; simpl ];
  repeat match goal with H : _ = true |- _ => rewrite H; clear H | H : _ = false |- _ => rewrite H; clear H end;
  try (split; reflexivity); fin_true.

Lemma rm_both : (forall e, Prm e) /\ (forall c, Qrm c).
Proof.
  apply size_ind2.
  - intros e IHe IHc. unfold Prm.
    destruct e; try rewrite remove_ListTensor; try (simpl; unf; drm; rm_fin; fail).
    + (* ListTensor *)
      assert (L := rm_list es (fun x Hx => IHe x ltac:(rewrite size_ListTensor; apply In_size_list, Hx))).
      destruct L as [Ln Ls]. simpl has_ic. fold (has_ic_list es).
      destruct (remove_list es) as [l'|] eqn:E.
      * destruct (Ls _ eq_refl) as [H1 H2]. split; [discriminate|]. intros e' H; inv H.
        simpl. fold (cfree_list l'). change (has_ic_list es = false /\ cfree_list l' = true). auto.
      * split; [intros _; change (has_ic_list es = true); auto | discriminate].
  - intros c IHe IHc. unfold Qrm.
    destruct c; simpl; drm; rm_fin.
Qed.

(* real mode rejects exactly the expressions containing an Imag node or a complex literal *)
Theorem C23_remove_reject_iff : forall e, remove e = None <-> has_ic e = true.
Proof.
  intros e. destruct (proj1 rm_both e) as [Hn Hs]. split; [exact Hn|].
  intros H. destruct (remove e) as [e'|] eqn:E; [|reflexivity].
  destruct (Hs _ eq_refl) as [H1 _]. congruence.
Qed.

(* the output of real mode contains no Conj / Real / Imag node and no complex literal *)
Theorem C23_remove_clean : forall e e', remove e = Some e' -> cfree e' = true.
Proof. intros e e' H. exact (proj2 (proj2 (proj1 rm_both e) _ H)). Qed.
Print Assumptions C23_wrap.
Print Assumptions C23_reject.
Print Assumptions C23_reject_only.
Print Assumptions C23_remove_reject_iff.
Print Assumptions C23_remove_clean.
