(* C10: expand_indices with the REPAIRED variable cache (fixes/C10-expand-variable-cache.diff):
   the cache key is (label, current component, current index values) instead of the label alone.

   [expandK]  the traversal with that cache threaded through;
   Theorem C10_expandK_expand0: for every expression whose Variable labels determine their bodies
   (UFL creates one Label per variable() call), the cached traversal computes exactly the pure
   expansion [expand0] -- so with the repaired cache the expansion theorem C10_expand_partial holds
   WITHOUT the no-clash guard (C10_expand_full).  The model key compares the valuation as the stack
   of bindings (finer than the dict of current values the code uses: the code can only hit more
   often, on contexts with the same current values). *)
Require Import UFLV.Core.Den UFLV.Props.C10_model UFLV.Props.C10_lemmas UFLV.Props.C10_thm
               UFLV.Props.C10_expand.
Import ListNotations.

Definition kkey := (nat * (list nat * valn))%type.
Definition kstate := list (kkey * expr).
Fixpoint valn_eqb (a b : valn) : bool :=
  match a, b with
  | [], [] => true
  | (i, x) :: a', (j, y) :: b' => Nat.eqb i j && Nat.eqb x y && valn_eqb a' b'
  | _, _ => false
  end.
Definition key_eqb (k1 k2 : kkey) : bool :=
  Nat.eqb (fst k1) (fst k2) && list_eqb (fst (snd k1)) (fst (snd k2))
  && valn_eqb (snd (snd k1)) (snd (snd k2)).
Fixpoint klookup (st : kstate) (k : kkey) : option expr :=
  match st with [] => None | (k', x) :: t => if key_eqb k k' then Some x else klookup t k end.

Definition bindK {X Y} (o : option (X * kstate)) (f : X -> kstate -> option (Y * kstate)) :=
  match o with Some (x, st) => f x st | None => None end.
Fixpoint esumK (d : nat) (f : nat -> kstate -> option (expr * kstate)) (st : kstate) :
  option (expr * kstate) :=
  match d with
  | 0 => Some (Zero [] [], st)
  | S m => bindK (esumK m f st) (fun acc st1 => bindK (f m st1) (fun x st2 =>
             Some (match m with 0 => x | _ => Sum acc x end, st2)))
  end.
Section ExpK.
Variable expandK : valn -> list nat -> expr -> kstate -> option (expr * kstate).
Fixpoint cexpandK (v : valn) (cn : cond) (st : kstate) : option (cond * kstate) :=
  match cn with
  | Cmp op a b => bindK (expandK v [] a st) (fun a' st1 => bindK (expandK v [] b st1) (fun b' st2 =>
                    Some (Cmp op a' b', st2)))
  | AndC a b => bindK (cexpandK v a st) (fun a' st1 => bindK (cexpandK v b st1) (fun b' st2 =>
                    Some (AndC a' b', st2)))
  | OrC a b => bindK (cexpandK v a st) (fun a' st1 => bindK (cexpandK v b st1) (fun b' st2 =>
                    Some (OrC a' b', st2)))
  | NotC a => bindK (cexpandK v a st) (fun a' st1 => Some (NotC a', st1))
  end.
End ExpK.
Definition retK (st : kstate) (o : option expr) : option (expr * kstate) :=
  match o with Some e => Some (e, st) | None => None end.

Fixpoint expandK (v : valn) (c : list nat) (e : expr) (st : kstate) {struct e} :
  option (expr * kstate) :=
  let un (C : expr -> expr) a := bindK (expandK v c a st) (fun a' st1 => Some (C a', st1)) in
  let bin (C : expr -> expr -> expr) a b :=
    bindK (expandK v c a st) (fun a' st1 => bindK (expandK v c b st1) (fun b' st2 => Some (C a' b', st2))) in
  match e with
  | Zero sh _ => retK st (if Nat.eqb (length sh) (length c) then Some (Zero [] []) else None)
  | IntV _ | RealV _ _ | CplxV _ _ _ _ | RatV _ _ => retK st (match c with [] => Some e | _ => None end)
  | Identity n => retK st (at_comp e [n; n] c)
  | PermSym n => retK st (at_comp e (repeat n n) c)
  | Term _ _ sh => retK st (at_comp e sh c)
  | Sum a b => bin Sum a b
  | Product a b => bin Product a b
  | Division a b => match c with [] => bin Division a b | _ => None end
  | Power a b => if is_lit b then un (fun a' => Power a' b) a else bin Power a b
  | Abs a => un Abs a | Conj a => un Conj a | Real a => un Real a | Imag a => un Imag a
  | Math g a => un (Math g) a
  | MinV a b => bin MinV a b | MaxV a b => bin MaxV a b | Atan2 a b => bin Atan2 a b
  | Bessel k a b => bin (Bessel k) a b
  | Restricted p a => un (Restricted p) a
  | Vari a l =>
      match klookup st (l, (c, v)) with
      | Some x => Some (x, st)
      | None => bindK (expandK v c a st) (fun a' st1 =>
                  let x := Vari a' l in Some (x, ((l, (c, v)), x) :: st1))
      end
  | Indexed a mi => match mi_vals v mi with Some c' => expandK v c' a st | None => None end
  | IndexSum a i d => esumK d (fun k st1 => expandK ((i, k) :: v) c a st1) st
  | ComponentTensor a ix =>
      if Nat.eqb (length ix) (length c) then expandK (push_all v ix c) [] a st else None
  | ListTensor es =>
      match c with
      | [] => None
      | k :: c' =>
          (fix pick (l : list expr) (n : nat) {struct l} : option (expr * kstate) :=
             match l, n with
             | [], _ => None
             | x :: _, 0 => expandK v c' x st
             | _ :: t, S n' => pick t n'
             end) es k
      end
  | Conditional cn t f =>
      bindK (cexpandK expandK v cn st) (fun cn' st1 => bindK (expandK v c t st1) (fun t' st2 =>
        bindK (expandK v c f st2) (fun f' st3 => Some (Conditional cn' t' f', st3))))
  | Grad a g => retK st (match dv a with [] => at_comp e (shape a ++ [g]) c | _ => None end)
  | _ => None
  end.

Definition expand_indices_k (e : expr) : option expr :=
  match expandK [] [] e [] with Some (x, _) => Some x | None => None end.

(* ---- the Variable nodes of an expression, with their bodies ---- *)
Fixpoint vars (e : expr) : list (nat * expr) :=
  match e with
  | Vari a l => (l, a) :: vars a
  | _ => efold (@app (nat * expr)) [] vars e
  end.
Definition agree (f : nat -> option expr) (e : expr) : Prop :=
  forall l a, In (l, a) (vars e) -> f l = Some a.
Definition inv (f : nat -> option expr) (st : kstate) : Prop :=
  forall l c v x, In ((l, (c, v)), x) st ->
    exists a a', f l = Some a /\ expand0 v c a = Some a' /\ x = Vari a' l.

Lemma fold_app_in_p (g : expr -> list (nat * expr)) l p :
  In p (fold_right (fun a r => g a ++ r) [] l) <-> exists a, In a l /\ In p (g a).
Proof.
  induction l as [|x t IH]; cbn.
  - split; [contradiction|intros [a [[] _]]].
  - rewrite in_app_iff, IH. split.
    + intros [H|[a [Ha Hj]]]; [exists x; auto|exists a; auto].
    + intros [a [[<-|Ha] Hj]]; [left; auto|right; exists a; auto].
Qed.
Lemma agree_child f e a : agree f e -> In a (children e) -> agree f a.
Proof.
  intros H Ha l x Hx. apply H.
  destruct e; try (cbn [vars]; rewrite efold_children; apply fold_app_in_p; exists a; auto; fail).
  (* Vari *) cbn in Ha. destruct Ha as [<-|[]]. cbn [vars]. right. exact Hx.
Qed.

Lemma cexprs_mono c : forall l l', (forall x, In x l -> In x l') ->
  forall x, In x (cexprs c l) -> In x (cexprs c l').
Proof.
  induction c; intros l l' Hl x Hx; cbn in *.
  - destruct Hx as [Hx|[Hx|Hx]]; auto.
  - apply (IHc1 (cexprs c2 l)); [|exact Hx]. apply IHc2. exact Hl.
  - apply (IHc1 (cexprs c2 l)); [|exact Hx]. apply IHc2. exact Hl.
  - apply (IHc l); assumption.
Qed.
Lemma cexprs_nil c l x : In x (cexprs c []) -> In x (cexprs c l).
Proof. apply cexprs_mono. intros y []. Qed.

Lemma list_eqb_eq a b : list_eqb a b = true -> a = b.
Proof.
  revert b; induction a as [|x a IH]; intros [|y b] H; cbn in H; try discriminate; [reflexivity|].
  apply andb_true_iff in H. destruct H as [H1 H2]. apply Nat.eqb_eq in H1. f_equal; auto.
Qed.
Lemma valn_eqb_eq a b : valn_eqb a b = true -> a = b.
Proof.
  revert b; induction a as [|[i x] a IH]; intros [|[j y] b] H; cbn in H; try discriminate; [reflexivity|].
  apply andb_true_iff in H. destruct H as [H1 H2]. apply andb_true_iff in H1. destruct H1 as [H0 H1].
  apply Nat.eqb_eq in H0. apply Nat.eqb_eq in H1. f_equal; [congruence|auto].
Qed.
Lemma klookup_in st k x : klookup st k = Some x -> In (k, x) st.
Proof.
  induction st as [|[k' y] t IH]; cbn; [discriminate|].
  destruct (key_eqb k k') eqn:E; [|intros H; right; auto].
  intros H. injection H as <-. left.
  unfold key_eqb in E. apply andb_true_iff in E. destruct E as [E E3]. apply andb_true_iff in E. destruct E as [E1 E2].
  apply Nat.eqb_eq in E1. apply list_eqb_eq in E2. apply valn_eqb_eq in E3.
  destruct k as [l [c v]], k' as [l' [c' v']]. cbn in *. congruence.
Qed.

Lemma bindK_inv {X Y} (o : option (X * kstate)) (g : X -> kstate -> option (Y * kstate)) r :
  bindK o g = Some r -> exists x st, o = Some (x, st) /\ g x st = Some r.
Proof. destruct o as [[x st]|]; cbn; [|discriminate]. intros H. exists x, st. auto. Qed.
Lemma retK_inv st o e' st' : retK st o = Some (e', st') -> o = Some e' /\ st' = st.
Proof. destruct o; cbn; [|discriminate]. intros H. injection H as <- <-. auto. Qed.

Ltac kstep IH Hs Hag :=
  match goal with
  | H : bindK (expandK ?v ?c ?a ?st) _ = Some _, I : inv _ ?st |- _ =>
      let a' := fresh "a'" in let st1 := fresh "st" in let E := fresh "E" in
      let X := fresh "X" in let I1 := fresh "I" in
      apply bindK_inv in H; destruct H as (a' & st1 & E & H);
      destruct (IH a v c st a' st1 ltac:(cbn [size] in Hs; lia)
                   ltac:(apply (agree_child _ _ a Hag); cbn; auto 6) I E) as [X I1];
      clear E
  end.

Lemma esumK_spec f0 d (g : nat -> kstate -> option (expr * kstate)) (g0 : nat -> option expr) :
  (forall k st x st', k < d -> inv f0 st -> g k st = Some (x, st') -> g0 k = Some x /\ inv f0 st') ->
  forall st e' st', inv f0 st -> esumK d g st = Some (e', st') -> esum d g0 = Some e' /\ inv f0 st'.
Proof.
  induction d as [|m IH]; intros Hg st e' st' I H; cbn in H.
  - injection H as <- <-. split; [reflexivity|exact I].
  - apply bindK_inv in H. destruct H as (acc & st1 & E1 & H).
    apply bindK_inv in H. destruct H as (x & st2 & E2 & H). injection H as <- <-.
    destruct (IH (fun k st x st' Hk => Hg k st x st' (Nat.lt_lt_succ_r _ _ Hk)) st acc st1 I E1) as [X1 I1].
    destruct (Hg m st1 x st2 (Nat.lt_succ_diag_r m) I1 E2) as [X2 I2].
    split; [|exact I2]. cbn [esum]. unfold bind. rewrite X1, X2. reflexivity.
Qed.

Lemma expandK_expand0_n f n : forall e v c st e' st', size e <= n -> agree f e -> inv f st ->
  expandK v c e st = Some (e', st') -> expand0 v c e = Some e' /\ inv f st'.
Proof.
  induction n as [|n IH]; intros e v c st e' st' Hs Hag I Hm.
  - destruct e; cbn in Hs; lia.
  - destruct e; cbn [expandK] in Hm; try discriminate Hm;
      try (apply retK_inv in Hm; destruct Hm as [Hm ->]; split; [exact Hm|exact I]).
    + (* Sum *) kstep IH Hs Hag. kstep IH Hs Hag. injection Hm as <- <-.
      split; [cbn [expand0]; unfold bind; rewrite X, X0; reflexivity|assumption].
    + (* Product *) kstep IH Hs Hag. kstep IH Hs Hag. injection Hm as <- <-.
      split; [cbn [expand0]; unfold bind; rewrite X, X0; reflexivity|assumption].
    + (* Division *) destruct c; [|discriminate]. kstep IH Hs Hag. kstep IH Hs Hag. injection Hm as <- <-.
      split; [cbn [expand0]; unfold bind; rewrite X, X0; reflexivity|assumption].
    + (* Power *) destruct (is_lit e2) eqn:El.
      * kstep IH Hs Hag. injection Hm as <- <-.
        split; [cbn [expand0]; rewrite El; unfold bind; rewrite X; reflexivity|assumption].
      * kstep IH Hs Hag. kstep IH Hs Hag. injection Hm as <- <-.
        split; [cbn [expand0]; rewrite El; unfold bind; rewrite X, X0; reflexivity|assumption].
    + kstep IH Hs Hag. injection Hm as <- <-. split; [cbn [expand0]; unfold bind; rewrite X; reflexivity|assumption].
    + kstep IH Hs Hag. injection Hm as <- <-. split; [cbn [expand0]; unfold bind; rewrite X; reflexivity|assumption].
    + kstep IH Hs Hag. injection Hm as <- <-. split; [cbn [expand0]; unfold bind; rewrite X; reflexivity|assumption].
    + kstep IH Hs Hag. injection Hm as <- <-. split; [cbn [expand0]; unfold bind; rewrite X; reflexivity|assumption].
    + (* Indexed *) cbn [expand0]. unfold bind. destruct (mi_vals v mi) as [c'|]; [|discriminate].
      apply (IH e v c' st e' st'); [cbn [size] in Hs; lia|apply (agree_child _ _ e Hag); cbn; auto|exact I|exact Hm].
    + (* IndexSum *) cbn [expand0].
      apply (esumK_spec f d (fun k st1 => expandK ((i, k) :: v) c e st1) (fun k => expand0 ((i, k) :: v) c e)
               ) with (st := st); [|exact I|exact Hm].
      intros k st0 x st0' _ I0 E.
      apply (IH e ((i, k) :: v) c st0 x st0'); [cbn [size] in Hs; lia|apply (agree_child _ _ e Hag); cbn; auto|exact I0|exact E].
    + (* ComponentTensor *) cbn [expand0]. destruct (Nat.eqb (length ix) (length c)); [|discriminate].
      apply (IH e (push_all v ix c) [] st e' st'); [cbn [size] in Hs; lia|apply (agree_child _ _ e Hag); cbn; auto|exact I|exact Hm].
    + (* ListTensor *) cbn [expand0]. destruct c as [|k c']; [discriminate|].
      assert (Hsz : forall x, In x es -> size x <= n /\ agree f x).
      { intros x Hx. split; [pose proof (children_size (ListTensor es) x Hx); lia|apply (agree_child _ _ x Hag); exact Hx]. }
      clear Hs Hag. revert k Hm. induction es as [|x t IHes]; intros k Hm; [discriminate|].
      destruct k as [|k].
      * destruct (Hsz x (or_introl eq_refl)) as [H1 H2]. apply (IH x v c' st e' st' H1 H2 I Hm).
      * apply IHes; [intros y Hy; apply Hsz; right; exact Hy|exact Hm].
    + (* Conditional *)
      apply bindK_inv in Hm. destruct Hm as (cn' & st1 & Ec & Hm).
      assert (Hc : cexpand0 expand0 v c0 = Some cn' /\ inv f st1).
      { assert (Hcs : csize c0 <= n) by (cbn [size] in Hs; lia).
        assert (Hca : forall a, In a (cexprs c0 []) -> agree f a).
        { intros a Ha. apply (agree_child _ _ a Hag). cbn. apply cexprs_nil. exact Ha. }
        clear Hm Hs Hag. revert st cn' st1 I Ec Hcs Hca.
        induction c0; intros st cn' st1 I Ec Hcs Hca; cbn in Ec; cbn [csize] in Hcs.
        - apply bindK_inv in Ec. destruct Ec as (a' & s1 & E1 & Ec).
          apply bindK_inv in Ec. destruct Ec as (b' & s2 & E2 & Ec). injection Ec as <- <-.
          destruct (IH a v [] st a' s1 ltac:(lia) (Hca a ltac:(cbn; auto)) I E1) as [X1 I1].
          destruct (IH b v [] s1 b' s2 ltac:(lia) (Hca b ltac:(cbn; auto)) I1 E2) as [X2 I2].
          split; [cbn; unfold bind; rewrite X1, X2; reflexivity|exact I2].
        - apply bindK_inv in Ec. destruct Ec as (a' & s1 & E1 & Ec).
          apply bindK_inv in Ec. destruct Ec as (b' & s2 & E2 & Ec). injection Ec as <- <-.
          destruct (IHc0_1 st a' s1 I E1 ltac:(lia)) as [X1 I1].
          { intros a Ha. apply Hca. cbn. apply cexprs_nil. exact Ha. }
          destruct (IHc0_2 s1 b' s2 I1 E2 ltac:(lia)) as [X2 I2].
          { intros a Ha. apply Hca. cbn. apply cexprs_acc. exact Ha. }
          split; [cbn; unfold bind; rewrite X1, X2; reflexivity|exact I2].
        - apply bindK_inv in Ec. destruct Ec as (a' & s1 & E1 & Ec).
          apply bindK_inv in Ec. destruct Ec as (b' & s2 & E2 & Ec). injection Ec as <- <-.
          destruct (IHc0_1 st a' s1 I E1 ltac:(lia)) as [X1 I1].
          { intros a Ha. apply Hca. cbn. apply cexprs_nil. exact Ha. }
          destruct (IHc0_2 s1 b' s2 I1 E2 ltac:(lia)) as [X2 I2].
          { intros a Ha. apply Hca. cbn. apply cexprs_acc. exact Ha. }
          split; [cbn; unfold bind; rewrite X1, X2; reflexivity|exact I2].
        - apply bindK_inv in Ec. destruct Ec as (a' & s1 & E1 & Ec). injection Ec as <- <-.
          destruct (IHc0 st a' s1 I E1 ltac:(lia) Hca) as [X1 I1].
          split; [cbn; unfold bind; rewrite X1; reflexivity|exact I1]. }
      destruct Hc as [Xc I1].
      assert (A1 : agree f e1) by (apply (agree_child _ _ e1 Hag); cbn; apply cexprs_acc; cbn; auto).
      assert (A2 : agree f e2) by (apply (agree_child _ _ e2 Hag); cbn; apply cexprs_acc; cbn; auto).
      apply bindK_inv in Hm. destruct Hm as (t' & st2 & E1 & Hm).
      apply bindK_inv in Hm. destruct Hm as (f' & st3 & E2 & Hm). injection Hm as <- <-.
      destruct (IH e1 v c st1 t' st2 ltac:(cbn [size] in Hs; lia) A1 I1 E1) as [X1 I2].
      destruct (IH e2 v c st2 f' st3 ltac:(cbn [size] in Hs; lia) A2 I2 E2) as [X2 I3].
      split; [cbn [expand0]; unfold bind; rewrite Xc, X1, X2; reflexivity|exact I3].
    + kstep IH Hs Hag. kstep IH Hs Hag. injection Hm as <- <-.
      split; [cbn [expand0]; unfold bind; rewrite X, X0; reflexivity|assumption].
    + kstep IH Hs Hag. kstep IH Hs Hag. injection Hm as <- <-.
      split; [cbn [expand0]; unfold bind; rewrite X, X0; reflexivity|assumption].
    + kstep IH Hs Hag. injection Hm as <- <-. split; [cbn [expand0]; unfold bind; rewrite X; reflexivity|assumption].
    + kstep IH Hs Hag. kstep IH Hs Hag. injection Hm as <- <-.
      split; [cbn [expand0]; unfold bind; rewrite X, X0; reflexivity|assumption].
    + kstep IH Hs Hag. kstep IH Hs Hag. injection Hm as <- <-.
      split; [cbn [expand0]; unfold bind; rewrite X, X0; reflexivity|assumption].
    + (* Vari *) destruct (klookup st (label, (c, v))) as [x|] eqn:El.
      * injection Hm as <- <-. apply klookup_in in El.
        destruct (I label c v x El) as (a & a' & Hf & Ha & ->).
        rewrite (Hag label e (or_introl eq_refl)) in Hf. injection Hf as <-.
        split; [cbn [expand0]; unfold bind; rewrite Ha; reflexivity|exact I].
      * kstep IH Hs Hag. injection Hm as <- <-.
        split; [cbn [expand0]; unfold bind; rewrite X; reflexivity|].
        intros l0 c1 v1 x0 [Hin|Hin]; [|apply (I0 l0 c1 v1 x0 Hin)].
        injection Hin as <- <- <- <-. exists e, a'. repeat split; [apply Hag; left; reflexivity|exact X].
    + kstep IH Hs Hag. injection Hm as <- <-. split; [cbn [expand0]; unfold bind; rewrite X; reflexivity|assumption].
Qed.

Theorem C10_expandK_expand0 f e e' : agree f e -> expand_indices_k e = Some e' -> expand0 [] [] e = Some e'.
Proof.
  unfold expand_indices_k. intros Hag H.
  destruct (expandK [] [] e []) as [[x st]|] eqn:E; [|discriminate]. injection H as <-.
  apply (expandK_expand0_n f (size e) e [] [] [] x st (le_n _) Hag); [|exact E].
  intros l c v y [].
Qed.

Section Full.
Variable A : ualg.
Variable env : side -> nat -> nat -> list nat -> A.
Variables D DX : nat -> A -> A.
Variable ki : A.
(* with the repaired cache, expand_indices preserves the value of every closed scalar expression of
   the fragment whose labels determine their variables -- no guard on how variables are used *)
Theorem C10_expand_full f e e' : agree f e -> rk e 0 = true -> expand_indices_k e = Some e' ->
  forall s rho', @den A env D DX ki s rho' e' [] = @den A env D DX ki s (rho_of []) e [].
Proof.
  intros Hag Hr H. apply (C10_expand_partial A env D DX ki e [] [] e'); [|exact Hr].
  apply (C10_expandK_expand0 f e e' Hag H).
Qed.
End Full.

Print Assumptions C10_expandK_expand0.
Print Assumptions C10_expand_full.
