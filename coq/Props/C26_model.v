(* C26 - reference cell topology.  Model of ufl/cell.py: the table of named cells is regenerated
   from /repo into Gen/C26_table.v on every run; this file holds the table-independent definitions
   and the theorems that hold for EVERY table entry / every pair of (tdim, name) keys. *)
Require Import List ZArith Lia Bool Arith.
Import ListNotations.

(* a cell name is the list of the code points of its Python string *)
Definition name := list nat.
(* table entry: name and, per dimension, the names of the sub-entities *)
Definition entry := (name * list (list name))%type.
Definition table := list entry.

Fixpoint name_eqb (a b : name) : bool :=
  match a, b with
  | [], [] => true
  | x :: a', y :: b' => Nat.eqb x y && name_eqb a' b'
  | _, _ => false
  end.

(* Python's str < str : lexicographic by code point, proper prefix is smaller *)
Fixpoint name_ltb (a b : name) : bool :=
  match a, b with
  | [], [] => false
  | [], _ :: _ => true
  | _ :: _, [] => false
  | x :: a', y :: b' => if Nat.ltb x y then true else if Nat.eqb x y then name_ltb a' b' else false
  end.

Lemma name_eqb_eq a b : name_eqb a b = true <-> a = b.
Proof.
  revert b; induction a as [|x a IH]; intros [|y b]; cbn; try (split; congruence).
  rewrite andb_true_iff, Nat.eqb_eq, IH. split; [intros [-> ->]; auto | intros H; inversion H; auto].
Qed.

Lemma name_ltb_irrefl a : name_ltb a a = false.
Proof. induction a as [|x a IH]; cbn [name_ltb]; auto. rewrite Nat.ltb_irrefl, Nat.eqb_refl. exact IH. Qed.

Lemma name_ltb_trans a b c : name_ltb a b = true -> name_ltb b c = true -> name_ltb a c = true.
Proof.
  revert b c; induction a as [|x a IH]; intros [|y b] [|z c]; cbn [name_ltb]; try congruence; auto.
  destruct (Nat.ltb_spec x y), (Nat.ltb_spec y z), (Nat.ltb_spec x z); try lia; auto;
  destruct (Nat.eqb_spec x y), (Nat.eqb_spec y z), (Nat.eqb_spec x z); try lia; try congruence; eauto.
Qed.

Lemma name_ltb_total a b : a <> b -> name_ltb a b = true \/ name_ltb b a = true.
Proof.
  revert b; induction a as [|x a IH]; intros [|y b] H; cbn [name_ltb]; auto; try congruence.
  destruct (Nat.ltb_spec x y), (Nat.ltb_spec y x); try lia; auto.
  assert (x = y) by lia; subst. rewrite Nat.eqb_refl. apply IH. congruence.
Qed.

Lemma name_ltb_asym a b : name_ltb a b = true -> name_ltb b a = false.
Proof.
  intros H. destruct (name_ltb b a) eqn:E; auto.
  pose proof (name_ltb_trans _ _ _ H E) as T. rewrite name_ltb_irrefl in T. discriminate.
Qed.

(* AbstractCell.__lt__ for two cells of the same class: compare tdim, then Cell._lt = name order *)
Definition cell_ltb (c1 c2 : nat * name) : bool :=
  if negb (Nat.eqb (fst c1) (fst c2)) then Nat.ltb (fst c1) (fst c2) else name_ltb (snd c1) (snd c2).

Theorem cell_lt_irrefl c : cell_ltb c c = false.
Proof. unfold cell_ltb. rewrite Nat.eqb_refl. cbn. apply name_ltb_irrefl. Qed.

Theorem cell_lt_trans c1 c2 c3 : cell_ltb c1 c2 = true -> cell_ltb c2 c3 = true -> cell_ltb c1 c3 = true.
Proof.
  destruct c1 as [d1 n1], c2 as [d2 n2], c3 as [d3 n3]; unfold cell_ltb; cbn [fst snd].
  destruct (Nat.eqb_spec d1 d2), (Nat.eqb_spec d2 d3), (Nat.eqb_spec d1 d3); cbn [negb];
  rewrite ?Nat.ltb_lt; try lia; try apply name_ltb_trans; try (intros; exfalso; lia).
Qed.

Theorem cell_lt_total c1 c2 : c1 <> c2 -> cell_ltb c1 c2 = true \/ cell_ltb c2 c1 = true.
Proof.
  destruct c1 as [d1 n1], c2 as [d2 n2]; unfold cell_ltb; cbn [fst snd]. intros H.
  destruct (Nat.eqb_spec d1 d2), (Nat.eqb_spec d2 d1); cbn [negb]; rewrite ?Nat.ltb_lt; try lia.
  subst. apply name_ltb_total. congruence.
Qed.

Theorem cell_lt_asym c1 c2 : cell_ltb c1 c2 = true -> cell_ltb c2 c1 = false.
Proof.
  intros H. destruct (cell_ltb c2 c1) eqn:E; auto.
  pose proof (cell_lt_trans _ _ _ H E) as T. rewrite cell_lt_irrefl in T. discriminate.
Qed.

(* ---- table accessors (Cell.__init__ and the AbstractCell properties) ---- *)
Fixpoint lookup (t : table) (n : name) : option (list (list name)) :=
  match t with
  | [] => None
  | (m, e) :: t' => if name_eqb m n then Some e else lookup t' n
  end.
Definition tdim_of (e : list (list name)) : nat := length e - 1.
Definition num_sub (e : list (list name)) (d : nat) : nat := length (nth d e []).
Definition sub_ents (e : list (list name)) (d : nat) : list name := nth d e [].
(* dim = tdim - k with Python semantics: negative dimension gives 0 / () *)
Definition num_codim (e : list (list name)) (k : nat) : nat :=
  if Nat.ltb (tdim_of e) k then 0 else num_sub e (tdim_of e - k).
Definition ents_codim (e : list (list name)) (k : nat) : list name :=
  if Nat.ltb (tdim_of e) k then [] else sub_ents e (tdim_of e - k).

(* Euler characteristic of a polytope including the cell itself: sum_d (-1)^d n_d = 1 *)
Fixpoint alt_sum (l : list (list name)) (sign : Z) : Z :=
  match l with [] => 0%Z | x :: r => (sign * Z.of_nat (length x) + alt_sum r (- sign))%Z end.
Definition euler_ok (e : list (list name)) : bool := Z.eqb (alt_sum e 1%Z) 1%Z.

(* every listed sub-entity of dimension d is a cell of the table with topological dimension d *)
Definition subentity_dims_ok (t : table) (e : list (list name)) : bool :=
  forallb (fun p : nat * list name =>
             forallb (fun n => match lookup t n with
                               | Some e' => Nat.eqb (tdim_of e') (fst p)
                               | None => false end) (snd p))
          (combine (seq 0 (length e)) e).
(* the top-dimensional entity is the cell itself, exactly once *)
Definition top_ok (n : name) (e : list (list name)) : bool :=
  match nth (tdim_of e) e [] with [m] => name_eqb m n | _ => false end.
(* a d-dimensional polytope has at least d+1 entities of each dimension below d ... at least 1 *)
Definition nonempty_ok (e : list (list name)) : bool := forallb (fun l => negb (Nat.eqb (length l) 0)) e.

Definition entry_ok (t : table) (x : entry) : bool :=
  euler_ok (snd x) && subentity_dims_ok t (snd x) && top_ok (fst x) (snd x) && nonempty_ok (snd x)
  && negb (Nat.eqb (length (snd x)) 0).
Definition table_ok (t : table) : bool := forallb (entry_ok t) t.

(* facets / ridges / peaks are the entities of dimension tdim-1/-2/-3 *)
Definition codim_ok (t : table) (e : list (list name)) (k : nat) : bool :=
  forallb (fun n => match lookup t n with
                    | Some e' => Nat.eqb (tdim_of e' + k) (tdim_of e)
                    | None => false end) (ents_codim e k).

(* ---- tensor product cells: f-vector of a product polytope is the convolution ---- *)
Definition fvec (e : list (list name)) : list nat := map (@length name) e.
Fixpoint conv_at (a b : list nat) (k : nat) : nat :=
  (* sum_{i+j=k} a_i b_j *)
  match a with
  | [] => 0
  | x :: a' => x * nth k b 0 + match k with 0 => 0 | S k' => conv_at a' b k' end
  end.
Definition conv (a b : list nat) : list nat :=
  map (conv_at a b) (seq 0 (length a + length b - 1)).
Definition fvec_prod (fs : list (list nat)) : list nat := fold_left conv fs [1].

(* TensorProductCell.num_sub_entities as implemented, on f-vectors of the factors *)
Definition tp_tdim (fs : list (list nat)) : nat := fold_left (fun acc f => acc + (length f - 1)) fs 0.
Definition tp_num (fs : list (list nat)) (d : nat) : option nat :=
  let td := tp_tdim fs in
  if Nat.ltb td d then Some 0
  else if Nat.eqb d 0 then Some (fold_left (fun acc f => acc * nth 0 f 0) fs 1)
  else if Nat.eqb d (td - 1) then
    Some (fold_left (fun acc f => acc + (if Nat.eqb (length f - 1) 0 then 0 else nth (length f - 2) f 0)) fs 0)
  else if Nat.eqb d td then Some 1
  else None.
Definition tp_agrees (fs : list (list nat)) : bool :=
  forallb (fun d => match tp_num fs d with
                    | Some n => Nat.eqb n (nth d (fvec_prod fs) 0)
                    | None => true end) (seq 0 (tp_tdim fs + 1)).
Fixpoint alt_sum_nat (l : list nat) (sign : Z) : Z :=
  match l with [] => 0%Z | x :: r => (sign * Z.of_nat x + alt_sum_nat r (- sign))%Z end.
Definition tp_euler (fs : list (list nat)) : bool := Z.eqb (alt_sum_nat (fvec_prod fs) 1%Z) 1%Z.

Print Assumptions cell_lt_trans.
Print Assumptions cell_lt_total.
