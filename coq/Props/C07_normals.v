(* C07, hand-written part 4: facet and cell normals; same conventions as C07_thms.v.
   All statements are for ALL vertex positions over an arbitrary UFL algebra (given by its
   components, as in the generated files, so that ring/field see variables; every [ualg] is
   [Build_ualg] of its components).  sqrt and abs are uninterpreted in the algebra; the few facts
   needed about them enter as premises on the specific arguments
   ([sq_ok X : sqrt X * sqrt X = X], [abs_sq : abs x * abs x = x * x]), which hold in the reals for
   the sums of squares they are applied to. *)
Require Import UFLV.Core.Tac UFLV.Props.C07_spec.

Section Normals.
Variable KT : Type.
Variables (z0 z1 : KT) (add mul sub : KT -> KT -> KT) (opp : KT -> KT) (div : KT -> KT -> KT) (inv : KT -> KT).
Hypothesis Fth : field_theory z0 z1 add mul sub opp div inv (@eq KT).
Variables (conj re im abs : KT -> KT) (fn : mathfn -> KT -> KT) (pow atan2 : KT -> KT -> KT)
          (bessel : bkind -> KT -> KT -> KT).
Variable BT : Type.
Variables (cmp : cmpop -> KT -> KT -> BT) (and_ or_ : BT -> BT -> BT) (not_ : BT -> BT)
          (cond_ : BT -> KT -> KT -> KT) (min_ max_ : KT -> KT -> KT).
Definition A : ualg :=
  Build_ualg KT z0 z1 add mul sub opp div inv Fth conj re im abs fn pow atan2 bessel
             BT cmp and_ or_ not_ cond_ min_ max_.
Add Field FfC07n : Fth.
Hypothesis char0 : forall p, @of_pos A p <> z0.

Variable V : nat -> nat -> KT.
Variables co rd : KT.

Notation Jm := (Jm A V).
Notation det := (@Den.det A).
Notation gram := (@Den.gram A).
Notation ksum := (@Alg.ksum A).
Notation sqrt_ := (fn FSqrt).
Notation nrm2 := (nrm2 A).
Notation dotp := (dotp A).
Definition sq_ok (x : KT) : Prop := mul (sqrt_ x) (sqrt_ x) = x.
Definition abs_sq : Prop := forall x : KT, mul (abs x) (abs x) = mul x x.

Ltac rg := norm_goal; ring.
Ltac fd := norm_goal; field; nz_solve char0.
Ltac c2 i := destruct i as [|[|i]]; [ | | exfalso; lia ].
Ltac c3 i := destruct i as [|[|[|i]]]; [ | | | exfalso; lia ].
Ltac c4 i := destruct i as [|[|[|[|i]]]]; [ | | | | exfalso; lia ].


Notation ndir := (ndir A V rd).
Notation FJm := (FJm A V).

(* ---- facet normals of triangles and tetrahedra ---------------------------------------------- *)
(* fnormal = ndir / |ndir| (by definition, C07_spec.v); ndir = K^T rn is
   (a) orthogonal to every edge of the facet (columns of the facet Jacobian),
   (b) outward: ndir . (v_f - v_w0) = -scale, v_f the vertex opposite to the facet, scale = rd or 1,
   (c) tangent to the cell when the cell is immersed (orthogonal to the cell normal). *)
Theorem ndir_tangent_tri2 f : f < 3 -> det 2 Jm <> z0 ->
  dotp 2 (ndir 2 2 f) (fun i => FJm f i 0) = z0.
Proof. intros Hf H. norm_hyp H. c3 f; fd. Qed.
Theorem ndir_outward_tri2 f : f < 3 -> det 2 Jm <> z0 ->
  dotp 2 (ndir 2 2 f) (fun i => sub (V f i) (V (fv f 0) i)) = opp (rn_scale A rd f).
Proof. intros Hf H. norm_hyp H. c3 f; fd. Qed.
Theorem ndir_tangent_tet3 f j : f < 4 -> j < 2 -> det 3 Jm <> z0 ->
  dotp 3 (ndir 3 3 f) (fun i => FJm f i j) = z0.
Proof. intros Hf Hj H. norm_hyp H. c4 f; c2 j; fd. Qed.
Theorem ndir_outward_tet3 f : f < 4 -> det 3 Jm <> z0 ->
  dotp 3 (ndir 3 3 f) (fun i => sub (V f i) (V (fv f 0) i)) = opp (rn_scale A rd f).
Proof. intros Hf H. norm_hyp H. c4 f; fd. Qed.
Theorem ndir_tangent_tri3 f : f < 3 -> det 2 (gram 3 Jm) <> z0 ->
  dotp 3 (ndir 2 3 f) (fun i => FJm f i 0) = z0.
Proof. intros Hf H. norm_hyp H. c3 f; fd. Qed.
Theorem ndir_outward_tri3 f : f < 3 -> det 2 (gram 3 Jm) <> z0 ->
  dotp 3 (ndir 2 3 f) (fun i => sub (V f i) (V (fv f 0) i)) = opp (rn_scale A rd f).
Proof. intros Hf H. norm_hyp H. c3 f; fd. Qed.
Theorem ndir_in_plane_tri3 f : f < 3 -> det 2 (gram 3 Jm) <> z0 ->
  dotp 3 (ndir 2 3 f) (cnraw A V 3) = z0.
Proof. intros Hf H. norm_hyp H. c3 f; fd. Qed.

(* unit length of any vector divided by the square root of its squared length *)
Lemma unit_2 (d0 d1 s : KT) : s <> z0 -> mul s s = add (add z0 (mul d0 d0)) (mul d1 d1) ->
  add (add z0 (mul (div d0 s) (div d0 s))) (mul (div d1 s) (div d1 s)) = z1.
Proof.
  intros Hs E. transitivity (div (add (add z0 (mul d0 d0)) (mul d1 d1)) (mul s s)); [field; exact Hs|].
  rewrite <- E. field. exact Hs.
Qed.
Lemma unit_3 (d0 d1 d2 s : KT) : s <> z0 -> mul s s = add (add (add z0 (mul d0 d0)) (mul d1 d1)) (mul d2 d2) ->
  add (add (add z0 (mul (div d0 s) (div d0 s))) (mul (div d1 s) (div d1 s))) (mul (div d2 s) (div d2 s)) = z1.
Proof.
  intros Hs E. transitivity (div (add (add (add z0 (mul d0 d0)) (mul d1 d1)) (mul d2 d2)) (mul s s)); [field; exact Hs|].
  rewrite <- E. field. exact Hs.
Qed.
Theorem fnormal_unit t g f : 2 <= t -> 2 <= g <= 3 ->
  sqrt_ (nrm2 g (ndir t g f)) <> z0 -> sq_ok (nrm2 g (ndir t g f)) ->
  nrm2 g (fnormal A V rd t g f) = z1.
Proof.
  intros Ht Hg Hs Hq. unfold sq_ok in Hq.
  destruct t as [|[|t]]; try lia.
  assert (Hc : g = 2 \/ g = 3) by lia. destruct Hc; subst g.
  - exact (unit_2 (ndir (S (S t)) 2 f 0) (ndir (S (S t)) 2 f 1) _ Hs Hq).
  - exact (unit_3 (ndir (S (S t)) 3 f 0) (ndir (S (S t)) 3 f 1) (ndir (S (S t)) 3 f 2) _ Hs Hq).
Qed.

(* ---- facet "normals" of an interval (possibly immersed): +-J/|J|, pointing away from the other vertex *)
Theorem fnormal_interval_outward g f len : 1 <= g <= 3 -> f < 2 -> len <> z0 ->
  (forall i, fnormal A V rd 1 g f i = div (mul (rn A rd 1 f 0) (Jm i 0)) len) ->
  mul (dotp g (fnormal A V rd 1 g f) (fun i => sub (V (1 - f) i) (V f i))) len
  = opp (nrm2 g (fun k => Jm k 0)).
Proof.
  intros Hg Hf Hl E. assert (Hc : g = 1 \/ g = 2 \/ g = 3) by lia.
  unfold C07_spec.dotp. 
  destruct Hc as [Hc|[Hc|Hc]]; subst g; cbn [Alg.ksum]; rewrite !E; c2 f; clear E; fd.
Qed.

(* ---- cell normal of an immersed cell (interval in 2D, triangle in 3D) ------------------------ *)
Theorem cnraw_orthogonal_2 : dotp 2 (cnraw A V 2) (fun i => Jm i 0) = z0.
Proof. rg. Qed.
Theorem cnraw_orthogonal_3 j : j < 2 -> dotp 3 (cnraw A V 3) (fun i => Jm i j) = z0.
Proof. intros Hj. c2 j; rg. Qed.
(* its squared length is the Gram determinant of J (so it vanishes only on degenerate cells) *)
Theorem cnraw_length_2 : nrm2 2 (cnraw A V 2) = det 1 (gram 2 Jm).
Proof. rg. Qed.
Theorem cnraw_length_3 : nrm2 3 (cnraw A V 3) = det 2 (gram 3 Jm).
Proof. rg. Qed.

End Normals.

Print Assumptions ndir_outward_tet3.
Print Assumptions ndir_tangent_tri3.
Print Assumptions fnormal_unit.
Print Assumptions fnormal_interval_outward.
Print Assumptions cnraw_length_3.
