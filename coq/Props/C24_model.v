(* C24 - Point evaluation computes the mathematical value.

   [py_eval] is a hand-written model of the `evaluate` methods of /repo/ufl (algebra.py, tensors.py,
   indexsum.py, indexed.py, conditional.py, mathfunctions.py, constantvalue.py, variable.py,
   restriction.py, differentiation.py, geometry.py, core/terminal.py, core/multiindex.py) as one
   interpreter over the frozen [expr] type.  It follows the code, not the intention:

     * the [component] argument is passed on exactly as each method passes it (Product evaluates its
       operands at (), Division/Power/math functions/conditions pass the incoming component on,
       Indexed replaces it, ListTensor strips the first entry after a length check, Grad strips the
       last entry and appends it to the [derivatives] tuple, ...);
     * [index_values] (a StackDict) is an association list: push = cons, lookup = first match, pop = tail;
     * methods without a [derivatives] parameter fail when derivatives are passed (TypeError);
     * [None] stands for "raises an exception or returns something that is not a number";
     * Conditional.evaluate passes the VALUE component to its (scalar) condition  -- genuine defect;
     * PermutationSymbol.evaluate returns a UFL object (IntValue/Zero), not a number -- genuine defect.

   Python's numbers (int / Fraction / float / complex) are abstracted by the carrier of an arbitrary
   UFL algebra; the partial Python primitives (`/`, `**`, math.*, scipy bessel) are Section variables
   with the hypothesis that they return the algebra's value when they return.

   Main theorem [C24_eval_sound]: for ALL well-formed expressions of the evaluable fragment, all
   mappings consistent with the environment, all components, index valuations and derivative tuples,
   in every UFL algebra:  py_eval e = Some v  ->  v = D_ds (den e c).                                  *)
Require Import UFLV.Core.Den.
Require Import Lia.

Definition KIND_SC : nat := 10.     (* ufl2coq.KIND_OF_GEOMETRY["SpatialCoordinate"] *)

Definition obind {X Y} (o : option X) (f : X -> option Y) : option Y :=
  match o with Some x => f x | None => None end.
Definition obind2 {X Y Z} (a : option X) (b : option Y) (f : X -> Y -> option Z) : option Z :=
  match a, b with Some x, Some y => f x y | _, _ => None end.
(* a method without [derivatives] parameter called with derivatives: TypeError *)
Definition nod {X} (ds : list nat) (r : option X) : option X :=
  match ds with [] => r | _ => None end.

Fixpoint leqb (a b : list nat) : bool :=
  match a, b with
  | [], [] => true
  | x :: a', y :: b' => Nat.eqb x y && leqb a' b'
  | _, _ => false
  end.
Lemma leqb_eq a b : leqb a b = true -> a = b.
Proof.
  revert b; induction a as [|x a IH]; destruct b as [|y b]; cbn; try discriminate; auto.
  intros H. apply andb_prop in H. destruct H as [H1 H2]. apply Nat.eqb_eq in H1. f_equal; auto.
Qed.
Definition is_nil {X} (l : list X) : bool := match l with [] => true | _ => false end.
Lemma is_nil_eq {X} (l : list X) : is_nil l = true -> l = [].
Proof. destruct l; cbn; congruence. Qed.

(* ---------------------------------------------------------------------------------------------- *)
(* StackDict (ufl/utils/stacks.py): a dict plus an undo log.  Modelled faithfully here; the lemma  *)
(* below justifies the association-list view used by [py_eval].                                    *)
Section StackDict.
Definition dict := list (nat * nat).                      (* keys unique: maintained by dset/ddel *)
Fixpoint dget (d : dict) (k : nat) : option nat :=
  match d with [] => None | (k', v) :: t => if Nat.eqb k k' then Some v else dget t k end.
Fixpoint ddel (d : dict) (k : nat) : dict :=
  match d with [] => [] | (k', v) :: t => if Nat.eqb k k' then ddel t k else (k', v) :: ddel t k end.
Definition dset (d : dict) (k v : nat) : dict := (k, v) :: ddel d k.
Definition sdict := (dict * list (nat * option nat))%type.
Definition sd_push (s : sdict) (k v : nat) : sdict := (dset (fst s) k v, (k, dget (fst s) k) :: snd s).
Definition sd_pop (s : sdict) : sdict :=
  match snd s with
  | [] => s
  | (k, None) :: l => (ddel (fst s) k, l)
  | (k, Some v) :: l => (dset (fst s) k v, l)
  end.
Lemma dget_ddel d k j : dget (ddel d k) j = if Nat.eqb j k then None else dget d j.
Proof.
  induction d as [|[k' v] t IH]; cbn.
  - destruct (Nat.eqb j k); reflexivity.
  - destruct (Nat.eqb k k') eqn:E.
    + rewrite IH. destruct (Nat.eqb j k) eqn:E2; [reflexivity|].
      apply Nat.eqb_eq in E. subst k'. rewrite E2. reflexivity.
    + cbn. rewrite IH. destruct (Nat.eqb j k') eqn:E3; [|reflexivity].
      apply Nat.eqb_eq in E3. subst k'. rewrite Nat.eqb_sym, E. reflexivity.
Qed.
Lemma dget_dset d k v j : dget (dset d k v) j = if Nat.eqb j k then Some v else dget d j.
Proof. unfold dset. cbn. rewrite dget_ddel. destruct (Nat.eqb j k); reflexivity. Qed.
(* push then pop restores every lookup and the log *)
Theorem C24_stackdict_push_pop s k v :
  snd (sd_pop (sd_push s k v)) = snd s /\ forall j, dget (fst (sd_pop (sd_push s k v))) j = dget (fst s) j.
Proof.
  unfold sd_pop, sd_push; cbn [fst snd]. destruct (dget (fst s) k) eqn:E; cbn [fst snd]; split; auto; intros j.
  - rewrite dget_dset. destruct (Nat.eqb j k) eqn:E2.
    + apply Nat.eqb_eq in E2. subst. auto.
    + rewrite dget_dset, E2. reflexivity.
  - rewrite dget_ddel. destruct (Nat.eqb j k) eqn:E2.
    + apply Nat.eqb_eq in E2. subst. auto.
    + rewrite dget_dset, E2. reflexivity.
Qed.
(* while pushed, lookups see the new binding first: the association-list view *)
Theorem C24_stackdict_lookup s k v j :
  dget (fst (sd_push s k v)) j = if Nat.eqb j k then Some v else dget (fst s) j.
Proof. apply dget_dset. Qed.
End StackDict.

(* index_values as used by the interpreter *)
Fixpoint iv_get (iv : list (nat * nat)) (j : nat) : option nat :=
  match iv with [] => None | (i, k) :: t => if Nat.eqb j i then Some k else iv_get t j end.
Fixpoint rho_of (iv : list (nat * nat)) : nat -> nat :=
  match iv with [] => fun _ => 0 | (i, k) :: t => upd (rho_of t) i k end.
Fixpoint push_all (iv : list (nat * nat)) (ix : list (nat * nat)) (c : list nat) : list (nat * nat) :=
  match ix, c with
  | (i, _) :: ix', k :: c' => push_all ((i, k) :: iv) ix' c'
  | _, _ => iv
  end.
Lemma iv_get_rho iv j k : iv_get iv j = Some k -> rho_of iv j = k.
Proof.
  induction iv as [|[i k'] t IH]; cbn; [discriminate|].
  destruct (Nat.eqb j i); [congruence | auto].
Qed.
Lemma rho_push_all iv ix c : rho_of (push_all iv ix c) = upds (rho_of iv) ix c.
Proof.
  revert iv c; induction ix as [|[i d] ix IH]; intros iv c; [reflexivity|].
  destruct c as [|k c]; [reflexivity|]. cbn [push_all upds]. rewrite IH. reflexivity.
Qed.
(* MultiIndex.evaluate *)
Definition idx_eval (iv : list (nat * nat)) (i : idx) : option nat :=
  match i with Fixed n => Some n | Free j => iv_get iv j end.
Fixpoint mi_eval (iv : list (nat * nat)) (mi : list idx) : option (list nat) :=
  match mi with
  | [] => Some []
  | i :: t => obind2 (idx_eval iv i) (mi_eval iv t) (fun k l => Some (k :: l))
  end.
Lemma mi_eval_spec iv mi c : mi_eval iv mi = Some c ->
  map (idxval (rho_of iv)) mi = c /\ length c = length mi.
Proof.
  revert c; induction mi as [|i t IH]; intros c; cbn [mi_eval].
  - intros E; inversion E; auto.
  - unfold obind2. destruct (idx_eval iv i) as [k|] eqn:E1; [|discriminate].
    destruct (mi_eval iv t) as [l|] eqn:E2; [|discriminate]. intros E; inversion E; subst.
    destruct (IH l eq_refl) as [I1 I2]. cbn [map length]. rewrite I1, I2. split; [|reflexivity].
    f_equal. destruct i as [n|j]; cbn in *; [congruence|]. apply iv_get_rho; auto.
Qed.

Section Model.
Variable A : ualg.
Add Field AfC24 : (kfield A).
Open Scope K_scope.

(* values that enter through the mapping: numbers and nested tuples *)
Inductive pyval := PNum (v : A) | PTup (l : list pyval).
Fixpoint pv_get (p : pyval) (c : list nat) : option pyval :=
  match c with
  | [] => Some p
  | k :: c' => match p with
               | PTup l => match nth_error l k with Some q => pv_get q c' | None => None end
               | PNum _ => None            (* number[k]: TypeError *)
               end
  end.
Definition pv_num (p : pyval) (c : list nat) : option A :=
  match pv_get p c with Some (PNum v) => Some v | _ => None end.
(* a mapping entry: a callable f(x) / f(x, derivatives), or a plain value *)
Inductive mentry := MCall (f : list nat -> pyval) | MVal (p : pyval).

Variable mapping : nat -> nat -> option mentry.     (* terminal kind, id *)
Variable xpt : list A.                               (* the point, a tuple *)
Variable ki : A.
(* Python primitives that may raise *)
Variables pdiv ppow patan2 : A -> A -> option A.
Variable pmath : mathfn -> A -> option A.
Variable pbessel : bkind -> A -> A -> option A.
Variable bval : B A -> bool.                         (* bool(a < b) etc. *)
(* which body the working tree has (decided by py/C24_ast.py from the source on every run):
   cfix = Conditional.evaluate evaluates its condition at () (fixes/C24-conditional-component.diff),
   efix = PermutationSymbol.evaluate returns a number (fixes/C24-permutation-symbol-number.diff);
   false = the defective bodies of the pinned tree *)
Variables cfix efix : bool.

(* Terminal.evaluate *)
Definition term_eval (k id : nat) (c ds : list nat) : option A :=
  match mapping k id with
  | None => None                   (* unmapped: float(self) recursion, returns a UFL object at best *)
  | Some (MCall f) => pv_num (f ds) c
  | Some (MVal p) => match ds with [] => pv_num p c | _ => Some k0 end
  end.
(* SpatialCoordinate.evaluate *)
Definition sc_eval (c ds : list nat) : option A :=
  nod ds (match c with [] => nth_error xpt 0 | i :: _ => nth_error xpt i end).

(* tmp = 0; for k in range(n): tmp += f(k) *)
Fixpoint sum_loop (n : nat) (f : nat -> option A) : option A :=
  match n with
  | O => Some k0
  | S m => obind2 (sum_loop m f) (f m) (fun s v => Some (s + v))
  end.

Fixpoint py_eval (iv : list (nat * nat)) (e : expr) (c ds : list nat) {struct e} : option A :=
  match e with
  | Zero _ _ => nod ds (Some k0)
  | IntV z => nod ds (Some (of_Z z))
  | RealV m ex => nod ds (Some (kdyad m ex))
  | CplxV rm re im ie => nod ds (Some (kdyad rm re + ki * kdyad im ie))
  | RatV p q => nod ds (Some (of_Z p / of_pos q))
  | Identity _ => nod ds (match c with
                          | [a; b] => Some (if Nat.eqb a b then k1 else k0)
                          | _ => None end)
  | PermSym _ => if efix then nod ds (Some (perm_sign c))
                 else None                             (* returns IntValue(..)/Zero(): not a number *)
  | Term k id _ => if Nat.eqb k KIND_SC then sc_eval c ds else term_eval k id c ds
  | Sum a b => nod ds (obind2 (py_eval iv a c []) (py_eval iv b c []) (fun x y => Some (k0 + x + y)))
  | Product a b => nod ds (obind2 (py_eval iv a [] []) (py_eval iv b [] []) (fun x y => Some (k1 * x * y)))
  | Division a b => nod ds (obind2 (py_eval iv a c []) (py_eval iv b c []) pdiv)
  | Power a b => nod ds (obind2 (py_eval iv a c []) (py_eval iv b c []) ppow)
  | Abs a => nod ds (obind (py_eval iv a c []) (fun x => Some (kabs x)))
  | Conj a => nod ds (obind (py_eval iv a c []) (fun x => Some (kconj x)))
  | Real a => nod ds (obind (py_eval iv a c []) (fun x => Some (kre x)))
  | Imag a => nod ds (obind (py_eval iv a c []) (fun x => Some (kim x)))
  | Indexed a mi => match mi_eval iv mi with
                    | Some c' => py_eval iv a c' ds
                    | None => None
                    end
  | IndexSum a i d => nod ds (sum_loop d (fun k => py_eval ((i, k) :: iv) a c []))
  | ComponentTensor a ix =>
      nod ds (if Nat.eqb (length ix) (length c) then py_eval (push_all iv ix c) a [] [] else None)
  | ListTensor es =>
      if Nat.eqb (length c) (length (shape (ListTensor es))) then
        match c with
        | [] => None
        | k :: c' =>
            (fix nth_ev (l : list expr) (n : nat) {struct l} : option A :=
               match l, n with
               | [], _ => None
               | e0 :: _, O => py_eval iv e0 c' ds
               | _ :: t, S n' => nth_ev t n'
               end) es k
        end
      else None
  | Conditional cnd t f =>
      nod ds (match py_evalc iv cnd (if cfix then [] else c) with   (* defect: the value component *)
              | Some true => py_eval iv t c []
              | Some false => py_eval iv f c []
              | None => None
              end)
  | MinV a b => nod ds (obind2 (py_eval iv a c []) (py_eval iv b c []) (fun x y => Some (kmin x y)))
  | MaxV a b => nod ds (obind2 (py_eval iv a c []) (py_eval iv b c []) (fun x y => Some (kmax x y)))
  | Math f a => nod ds (obind (py_eval iv a c []) (pmath f))
  | Atan2 a b => nod ds (obind2 (py_eval iv a c []) (py_eval iv b c []) patan2)
  | Bessel k nu a => nod ds (obind2 (py_eval iv nu c []) (py_eval iv a c []) (pbessel k))
  | Vari a _ => nod ds (py_eval iv a c [])
  | Restricted _ a => nod ds (py_eval iv a c [])
  | Grad a _ | RefGrad a _ =>
      match c with
      | [] => None                                      (* component[-1]: IndexError *)
      | _ => py_eval iv a (removelast c) (ds ++ [last c 0])
      end
  | _ => None                                           (* Expr.evaluate: "not available" *)
  end
with py_evalc (iv : list (nat * nat)) (cn : cond) (c : list nat) {struct cn} : option bool :=
  match cn with
  | Cmp op a b => obind2 (py_eval iv a c []) (py_eval iv b c []) (fun x y => Some (bval (bcmp op x y)))
  | AndC a b => obind2 (py_evalc iv a c) (py_evalc iv b c) (fun x y => Some (andb x y))
  | OrC a b => obind2 (py_evalc iv a c) (py_evalc iv b c) (fun x y => Some (orb x y))
  | NotC a => obind (py_evalc iv a c) (fun x => Some (negb x))
  end.

(* Expr.__call__ -> _eval (after expand_derivatives, which is the subject of C03/C06):
   f.evaluate(coord, mapping, component, StackDict()) *)
Definition py_call (e : expr) (c : list nat) : option A := py_eval [] e c [].

(* ---------------------------------------------------------------------------------------------- *)
(* well-formedness: what the UFL constructors guarantee, for the evaluable operator fragment       *)
Variable tsh : nat -> nat -> list nat.                (* declared shape of every terminal *)

Definition scalar (e : expr) : bool := is_nil (shape e).

Fixpoint wf (e : expr) : bool :=
  match e with
  | Zero _ _ | IntV _ | RealV _ _ | CplxV _ _ _ _ | RatV _ _ | Identity _ => true
  | PermSym n => Nat.leb 1 n
  | Term k id sh => leqb sh (tsh k id)
  | Sum a b => wf a && wf b && leqb (shape a) (shape b)
  | Product a b | Division a b | Power a b | MinV a b | MaxV a b | Atan2 a b | Bessel _ a b =>
      wf a && wf b && scalar a && scalar b
  | Abs a | Conj a | Real a | Imag a | IndexSum a _ _ | Vari a _ | Restricted _ a | Grad a _ => wf a
  | Math _ a => wf a && scalar a
  | Indexed a mi => wf a && Nat.eqb (length mi) (length (shape a))
  | ComponentTensor a _ => wf a && scalar a
  | ListTensor es =>
      match es with
      | [] => false
      | e0 :: _ => forallb (fun x => wf x && leqb (shape x) (shape e0)) es
      end
  | Conditional cnd t f => wfc cnd && wf t && wf f && leqb (shape t) (shape f)
  | _ => false
  end
with wfc (cn : cond) : bool :=
  match cn with
  | Cmp _ a b => wf a && wf b && scalar a && scalar b
  | AndC a b | OrC a b => wfc a && wfc b
  | NotC a => wfc a
  end.

(* the component is a full multi-index of e, or e is scalar (then the code may pass anything) *)
Definition okc (e : expr) (c : list nat) : Prop := length c = length (shape e) \/ shape e = [].
Definition cc (e : expr) (c : list nat) : list nat := match shape e with [] => [] | _ => c end.

(* ---------------------------------------------------------------------------------------------- *)
(* the mathematical side                                                                            *)
Variable env : side -> nat -> nat -> list nat -> A.
Variable D DX : nat -> A -> A.
Notation DEN := (@den A env D DX ki).
Notation DENC := (@denc A env D DX ki).

Fixpoint iterD (ds : list nat) (v : A) : A :=
  match ds with [] => v | j :: t => D j (iterD t v) end.
Lemma iterD_app ds j v : iterD (ds ++ [j]) v = iterD ds (D j v).
Proof. induction ds as [|i t IH]; cbn; [reflexivity|]. rewrite IH. reflexivity. Qed.

(* Python primitives return the algebra's value when they return *)
Hypothesis H_pdiv : forall x y v, pdiv x y = Some v -> v = x / y.
Hypothesis H_ppow : forall x y v, ppow x y = Some v -> v = kpow x y.
Hypothesis H_patan2 : forall x y v, patan2 x y = Some v -> v = katan2 x y.
Hypothesis H_pmath : forall f x v, pmath f x = Some v -> v = kfn f x.
Hypothesis H_pbessel : forall k x y v, pbessel k x y = Some v -> v = kbessel k x y.
(* the algebra's power extends the natural powers (Python: x**0 == 1, x**n exact) *)
Hypothesis H_pow0 : forall x : A, kpow x k0 = k1.
Hypothesis H_powp : forall (x : A) p, kpow x (of_pos p) = kpown x (Pos.to_nat p).
(* conditions are decided pointwise *)
Hypothesis H_band : forall x y, bval (band x y) = andb (bval x) (bval y).
Hypothesis H_bor : forall x y, bval (bor x y) = orb (bval x) (bval y).
Hypothesis H_bnot : forall x, bval (bnot x) = negb (bval x).
Hypothesis H_kcond : forall b (x y : A), kcond b x y = if bval b then x else y.
(* the mapping describes the environment: callables return the (derivatives of the) field as nested
   tuples of the terminal's shape, plain values are constants *)
Hypothesis H_mcall : forall s k id f ds c v, mapping k id = Some (MCall f) ->
  pv_num (f ds) c = Some v -> length c = length (tsh k id) /\ v = iterD ds (env s k id c).
Hypothesis H_mval : forall s k id p c v, mapping k id = Some (MVal p) ->
  pv_num p c = Some v -> length c = length (tsh k id) /\ v = env s k id c.
Hypothesis H_mval_d : forall s k id p c j ds, mapping k id = Some (MVal p) ->
  iterD (j :: ds) (env s k id c) = k0.
Hypothesis H_sc : forall s id i v, nth_error xpt i = Some v -> v = env s KIND_SC id [i].
Hypothesis H_sc_sh : forall id, length (tsh KIND_SC id) = 1.

Lemma den_power s rho a b c :
  DEN s rho (Power a b) c = kpow (DEN s rho a []) (DEN s rho b []).
Proof.
  destruct b; try reflexivity. destruct z; cbn [den of_Z]; auto.
Qed.

Lemma den_cond s rho cn t f c :
  DEN s rho (Conditional cn t f) c = kcond (DENC s rho cn) (DEN s rho t c) (DEN s rho f c).
Proof. reflexivity. Qed.

Lemma nod_some {X} ds (r : option X) v : nod ds r = Some v -> ds = [] /\ r = Some v.
Proof. destruct ds; cbn; [auto | discriminate]. Qed.
Lemma obind2_some {X Y Z} (a : option X) (b : option Y) (f : X -> Y -> option Z) v :
  obind2 a b f = Some v -> exists x y, a = Some x /\ b = Some y /\ f x y = Some v.
Proof. destruct a as [x|], b as [y|]; cbn; try discriminate. eauto. Qed.
Lemma obind_some {X Y} (a : option X) (f : X -> option Y) v :
  obind a f = Some v -> exists x, a = Some x /\ f x = Some v.
Proof. destruct a as [x|]; cbn; try discriminate. eauto. Qed.

Lemma sum_loop_spec n f g v :
  sum_loop n f = Some v -> (forall k w, f k = Some w -> w = g k) -> v = ksum n g.
Proof.
  revert v; induction n as [|n IH]; intros v; cbn [sum_loop ksum].
  - intros E _. congruence.
  - intros E H. apply obind2_some in E. destruct E as (x & y & E1 & E2 & E3).
    inversion E3; subst. rewrite (IH x E1 H), (H n y E2). reflexivity.
Qed.

Lemma okc_scalar e c : scalar e = true -> okc e c.
Proof. intros H. right. apply is_nil_eq. exact H. Qed.
Lemma cc_scalar e c : scalar e = true -> cc e c = [].
Proof. intros H. unfold cc. rewrite (is_nil_eq _ H). reflexivity. Qed.
Lemma cc_same e e' c : shape e = shape e' -> cc e c = cc e' c.
Proof. unfold cc. intros ->. reflexivity. Qed.
Lemma okc_same e e' c : shape e = shape e' -> okc e c -> okc e' c.
Proof. unfold okc. intros ->. auto. Qed.
Lemma cc_full e c : length c = length (shape e) -> cc e c = c.
Proof. unfold cc. destruct (shape e); [destruct c; cbn; [auto|discriminate] | auto]. Qed.

Ltac inv_nod H := apply nod_some in H; let E := fresh "Eds" in destruct H as [E H]; subst.
Ltac inv_b2 H x y := apply obind2_some in H;
  let E1 := fresh "E1" in let E2 := fresh "E2" in destruct H as (x & y & E1 & E2 & H).
Ltac inv_b1 H x := apply obind_some in H; let E1 := fresh "E1" in destruct H as (x & E1 & H).
Ltac split_and :=
  repeat match goal with
  | H : _ && _ = true |- _ => apply andb_prop in H; destruct H
  end.

Definition Sound (e : expr) : Prop :=
  forall s iv c ds v, wf e = true -> okc e c -> py_eval iv e c ds = Some v ->
    v = iterD ds (DEN s (rho_of iv) e (cc e c)).
Definition SoundC (cn : cond) : Prop :=
  forall s iv c b, wfc cn = true -> py_evalc iv cn c = Some b -> b = bval (DENC s (rho_of iv) cn).

(* scalar operands evaluated at whatever component was passed *)
Lemma use_scalar e : Sound e -> forall s iv c v, wf e = true -> scalar e = true ->
  py_eval iv e c [] = Some v -> v = DEN s (rho_of iv) e [].
Proof.
  intros IH s iv c v W S E. specialize (IH s iv c [] v W (okc_scalar e c S) E).
  rewrite (cc_scalar e c S) in IH. exact IH.
Qed.

Theorem C24_eval_sound_mutual : (forall e, Sound e) /\ (forall cn, SoundC cn).
Proof.
  assert (F : forall e, Sound e) ; [| split; [exact F|] ].
  2: {
    fix IHc 1. intros cn. destruct cn as [op a b|a b|a b|a]; intros s iv c r W E; cbn [wfc py_evalc denc] in *.
    - split_and. inv_b2 E x y. inversion E; subst.
      rewrite (use_scalar a (F a) s iv c x), (use_scalar b (F b) s iv c y); auto.
    - split_and. inv_b2 E x y. inversion E; subst. rewrite H_band.
      rewrite <- (IHc a s iv c x), <- (IHc b s iv c y); auto.
    - split_and. inv_b2 E x y. inversion E; subst. rewrite H_bor.
      rewrite <- (IHc a s iv c x), <- (IHc b s iv c y); auto.
    - inv_b1 E x. inversion E; subst. rewrite H_bnot. rewrite <- (IHc a s iv c x); auto.
  }
  fix IH 1. intros e.
  assert (IHcond : forall cn, SoundC cn).
  { fix IHc 1. intros cn. destruct cn as [op a b|a b|a b|a]; intros s iv c r W E; cbn [wfc py_evalc denc] in *.
    - split_and. inv_b2 E x y. inversion E; subst.
      rewrite (use_scalar a (IH a) s iv c x), (use_scalar b (IH b) s iv c y); auto.
    - split_and. inv_b2 E x y. inversion E; subst. rewrite H_band.
      rewrite <- (IHc a s iv c x), <- (IHc b s iv c y); auto.
    - split_and. inv_b2 E x y. inversion E; subst. rewrite H_bor.
      rewrite <- (IHc a s iv c x), <- (IHc b s iv c y); auto.
    - inv_b1 E x. inversion E; subst. rewrite H_bnot. rewrite <- (IHc a s iv c x); auto. }
  intros s iv c ds v. destruct e; intros W OK E; cbn [py_eval] in E; try discriminate E.
  - (* Zero *) inv_nod E. inversion E; subst. reflexivity.
  - (* IntV *) inv_nod E. inversion E; subst. reflexivity.
  - (* RealV *) inv_nod E. inversion E; subst. reflexivity.
  - (* CplxV *) inv_nod E. inversion E; subst. reflexivity.
  - (* RatV *) inv_nod E. inversion E; subst. reflexivity.
  - (* Identity *) inv_nod E. unfold cc. cbn [shape].
    destruct c as [|a [|b [|? ?]]]; try discriminate E. inversion E; subst. reflexivity.
  - (* PermSym *) destruct efix; [|discriminate E]. inv_nod E. inversion E; subst.
    cbn [wf] in W. apply Nat.leb_le in W. unfold cc. cbn [shape iterD den].
    destruct n as [|n']; [lia|]. reflexivity.
  - (* Term *)
    cbn [wf] in W. apply leqb_eq in W. subst sh.
    destruct (Nat.eqb k KIND_SC) eqn:EK.
    + apply Nat.eqb_eq in EK. subst k. unfold sc_eval in E. inv_nod E.
      destruct OK as [OK|OK]; cbn [shape] in OK.
      2:{ pose proof (H_sc_sh id) as L. rewrite OK in L. discriminate L. }
      rewrite (cc_full (Term KIND_SC id (tsh KIND_SC id)) c OK). rewrite H_sc_sh in OK.
      destruct c as [|i [|? ?]]; try discriminate OK. cbn [den iterD]. apply H_sc; auto.
    + unfold term_eval in E. destruct (mapping k id) as [[f|p]|] eqn:EM; try discriminate E.
      * destruct (H_mcall s k id f ds c v EM E) as [L V]. rewrite (cc_full (Term k id (tsh k id)) c L). exact V.
      * destruct ds as [|j ds].
        -- destruct (H_mval s k id p c v EM E) as [L V]. rewrite (cc_full (Term k id (tsh k id)) c L). exact V.
        -- inversion E; subst. cbn [den]. symmetry. eapply H_mval_d; eauto.
  - (* Sum *) inv_nod E. cbn [wf] in W. split_and. inv_b2 E x y. inversion E; subst.
    match goal with H : leqb _ _ = true |- _ => apply leqb_eq in H; rename H into SH end.
    assert (Oa : okc e1 c) by exact OK.
    assert (Ob : okc e2 c) by (eapply okc_same; [exact SH | exact OK]).
    rewrite (IH e1 s iv c [] x), (IH e2 s iv c [] y); auto.
    cbn [iterD den]. rewrite (cc_same (Sum e1 e2) e1 c), <- (cc_same e1 e2 c); auto. ring.
  - (* Product *) inv_nod E. cbn [wf] in W. split_and. inv_b2 E x y. inversion E; subst.
    rewrite (use_scalar e1 (IH e1) s iv [] x), (use_scalar e2 (IH e2) s iv [] y); auto.
    cbn [iterD den]. ring.
  - (* Division *) inv_nod E. cbn [wf] in W. split_and. inv_b2 E x y. apply H_pdiv in E. subst.
    rewrite (use_scalar e1 (IH e1) s iv c x), (use_scalar e2 (IH e2) s iv c y); auto.
  - (* Power *) inv_nod E. cbn [wf] in W. split_and. inv_b2 E x y. apply H_ppow in E. subst.
    rewrite (use_scalar e1 (IH e1) s iv c x), (use_scalar e2 (IH e2) s iv c y); auto.
    cbn [iterD]. rewrite den_power. reflexivity.
  - (* Abs *) inv_nod E. cbn [wf] in W. inv_b1 E x. inversion E; subst.
    rewrite (IH e s iv c [] x); auto.
  - (* Conj *) inv_nod E. cbn [wf] in W. inv_b1 E x. inversion E; subst.
    rewrite (IH e s iv c [] x); auto.
  - (* Real *) inv_nod E. cbn [wf] in W. inv_b1 E x. inversion E; subst.
    rewrite (IH e s iv c [] x); auto.
  - (* Imag *) inv_nod E. cbn [wf] in W. inv_b1 E x. inversion E; subst.
    rewrite (IH e s iv c [] x); auto.
  - (* Indexed *) cbn [wf] in W. split_and.
    destruct (mi_eval iv mi) as [c'|] eqn:EM; [|discriminate E].
    destruct (mi_eval_spec iv mi c' EM) as [M1 M2].
    match goal with H : Nat.eqb _ _ = true |- _ => apply Nat.eqb_eq in H; rename H into L end.
    assert (L' : length c' = length (shape e)) by congruence.
    rewrite (IH e s iv c' ds v); auto; [|left; exact L'].
    rewrite (cc_full e c' L'). cbn [den]. rewrite M1. reflexivity.
  - (* IndexSum *) inv_nod E. cbn [wf] in W. cbn [iterD den].
    eapply sum_loop_spec; [exact E|]. intros k w Ek.
    rewrite (IH e s ((i, k) :: iv) c [] w); auto.
  - (* ComponentTensor *) inv_nod E. cbn [wf] in W. split_and.
    destruct (Nat.eqb (length ix) (length c)) eqn:EL; [|discriminate E]. apply Nat.eqb_eq in EL.
    rewrite (use_scalar e (IH e) s (push_all iv ix c) [] v); auto.
    rewrite rho_push_all. cbn [iterD den].
    rewrite cc_full; [reflexivity|]. cbn [shape]. rewrite map_length. auto.
  - (* ListTensor *)
    destruct (Nat.eqb (length c) (length (shape (ListTensor es)))) eqn:EL; [|discriminate E].
    apply Nat.eqb_eq in EL. rewrite (cc_full _ c EL).
    destruct c as [|k c']; [discriminate E|]. cbn [wf] in W.
    destruct es as [|e0 es0]; [discriminate W|].
    cbn [shape length] in EL. injection EL as EL.
    cbn [den].
    set (sh0 := shape e0) in *.
    assert (G : forall l n, forallb (fun x => wf x && leqb (shape x) sh0) l = true ->
       (fix nth_ev (l : list expr) (n : nat) {struct l} : option A :=
               match l, n with
               | [], _ => None
               | e0 :: _, O => py_eval iv e0 c' ds
               | _ :: t, S n' => nth_ev t n'
               end) l n = Some v ->
       v = iterD ds ((fix nth_den (l : list expr) (n : nat) {struct l} : A :=
             match l, n with
             | [], _ => k0
             | e0 :: _, O => DEN s (rho_of iv) e0 c'
             | _ :: t, S n' => nth_den t n'
             end) l n)).
    { fix IHl 1. intros l n Wl El. destruct l as [|x l']; [discriminate El|].
      cbn [forallb] in Wl. split_and.
      destruct n as [|n'].
      - match goal with H : leqb _ _ = true |- _ => apply leqb_eq in H; rename H into SH end.
        assert (Lx : length c' = length (shape x)) by congruence.
        rewrite (IH x s iv c' ds v); auto; [|left; exact Lx]. rewrite (cc_full x c' Lx). reflexivity.
      - apply IHl; auto. }
    exact (G (e0 :: es0) k W E).
  - (* Conditional *) inv_nod E. cbn [wf] in W. split_and.
    match goal with H : leqb _ _ = true |- _ => apply leqb_eq in H; rename H into SH end.
    destruct (py_evalc iv c0 (if cfix then [] else c)) as [b|] eqn:EC; [|discriminate E].
    pose proof (IHcond c0 s iv (if cfix then [] else c) b) as Hb. cbn [iterD]. rewrite den_cond, H_kcond, <- Hb; auto.
    destruct b.
    + rewrite (cc_same (Conditional c0 e1 e2) e1 c eq_refl). apply (IH e1 s iv c [] v); auto.
    + assert (Ob : okc e2 c) by (eapply okc_same; [exact SH | exact OK]).
      rewrite (cc_same (Conditional c0 e1 e2) e2 c SH). apply (IH e2 s iv c [] v); auto.
  - (* MinV *) inv_nod E. cbn [wf] in W. split_and. inv_b2 E x y. inversion E; subst.
    rewrite (use_scalar e1 (IH e1) s iv c x), (use_scalar e2 (IH e2) s iv c y); auto.
  - (* MaxV *) inv_nod E. cbn [wf] in W. split_and. inv_b2 E x y. inversion E; subst.
    rewrite (use_scalar e1 (IH e1) s iv c x), (use_scalar e2 (IH e2) s iv c y); auto.
  - (* Math *) inv_nod E. cbn [wf] in W. split_and. inv_b1 E x. apply H_pmath in E. subst.
    rewrite (use_scalar e (IH e) s iv c x); auto.
  - (* Atan2 *) inv_nod E. cbn [wf] in W. split_and. inv_b2 E x y. apply H_patan2 in E. subst.
    rewrite (use_scalar e1 (IH e1) s iv c x), (use_scalar e2 (IH e2) s iv c y); auto.
  - (* Bessel *) inv_nod E. cbn [wf] in W. split_and. inv_b2 E x y. apply H_pbessel in E. subst.
    rewrite (use_scalar e1 (IH e1) s iv c x), (use_scalar e2 (IH e2) s iv c y); auto.
  - (* Vari *) inv_nod E. cbn [wf] in W. rewrite (IH e s iv c [] v); auto.
  - (* Restricted *) inv_nod E. cbn [wf] in W. rewrite (IH e (Some plus) iv c [] v); auto.
  - (* Grad *) cbn [wf] in W. destruct c as [|c1 ct] eqn:Ec; [discriminate E|]. rewrite <- Ec in *.
    assert (L : length c = S (length (shape e))).
    { destruct OK as [OK|OK]; cbn [shape] in OK.
      - rewrite app_length in OK. cbn in OK. lia.
      - destruct (shape e); discriminate OK. }
    assert (L' : length (removelast c) = length (shape e)).
    { assert (c <> []) by (rewrite Ec; discriminate).
      rewrite (app_removelast_last 0 H) in L. rewrite app_length in L. cbn in L. lia. }
    assert (Ec' : py_eval iv e (removelast c) (ds ++ [last c 0]) = Some v).
    { rewrite Ec in *. exact E. }
    rewrite (IH e s iv _ _ v W (or_introl L') Ec').
    rewrite iterD_app. rewrite (cc_full e _ L').
    rewrite (cc_full (Grad e g) c); [reflexivity|]. cbn [shape]. rewrite app_length. cbn. lia.
  - (* RefGrad: not in the fragment *) cbn [wf] in W. discriminate W.
Qed.

Theorem C24_eval_sound e s iv c ds v :
  wf e = true -> okc e c -> py_eval iv e c ds = Some v ->
  v = iterD ds (DEN s (rho_of iv) e (cc e c)).
Proof. apply (proj1 C24_eval_sound_mutual). Qed.

(* the user-level statement: e(x, mapping, component) with a full component *)
Theorem C24_call_sound e c v :
  wf e = true -> length c = length (shape e) -> py_call e c = Some v ->
  v = DEN None (fun _ => 0) e c.
Proof.
  intros W L E. unfold py_call in E.
  rewrite (C24_eval_sound e None [] c [] v W (or_introl L) E). cbn [iterD rho_of].
  rewrite (cc_full e c L). reflexivity.
Qed.

End Model.

Print Assumptions C24_eval_sound.
Print Assumptions C24_call_sound.
Print Assumptions C24_stackdict_push_pop.
