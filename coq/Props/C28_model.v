(* C28 - Base-form algebra has the semantics of the linear maps it denotes.

   Hand-written, unbounded part.
   Syntax [bform]: the objects the implementation builds (Form = integer combination of opaque base
   forms, Matrix / Cofunction leaves, Coefficient, sum of Coefficients, ZeroBaseForm, FormSum with
   integer weights, Action, Adjoint, Coargument / Argument = identity, and [Cyclic]: the Action object
   that Action.__new__ returned from an identity shortcut and that Python then RE-INITIALISES with
   itself as operand - see C28_action_refuted).
   Semantics: an abstract multilinear-map algebra T (Section variables) with the laws listed below as
   hypotheses: commutative monoid (tadd, tzero), integer scaling, bilinear [contract] (contraction of
   the last argument of the left operand with the first of the right), linear involutive [transp],
   identity [ident].  The laws are instantiated (consistency) at the end of the file.
   Functions: Gallina models of FormSum.__new__/__init__ (mk_formsum), Action.__new__ (mk_action),
   Adjoint.__new__ (mk_adjoint), BaseForm/Form __add__/__sub__/__neg__/__rmul__, and of the number of
   arguments reported through _get_action_form_arguments / FormSum / Adjoint (rank). *)
Require Import List ZArith Bool Lia.
Import ListNotations.
Open Scope Z_scope.

Inductive bform :=
 | FormL (sg : list nat) (terms : list (Z * nat)) (* ufl.Form: sum of weight * base form id *)
 | Leaf (sg : list nat) (id : nat)               (* Matrix / Cofunction with argument spaces sg *)
 | Coef (id : nat)
 | CoefSum (ids : list nat)                      (* ufl Sum of Coefficients *)
 | ZeroF (sg : list nat)                        (* ZeroBaseForm: the spaces of its arguments *)
 | FSum (cs : list (bform * Z))
 | Act (l r : bform)
 | Adj (a : bform)
 | CoArg | Arg
 | Cyclic.

Definition is_zero (b : bform) : bool := match b with ZeroF _ => true | _ => false end.
Definition is_ident (b : bform) : bool := match b with CoArg | Arg => true | _ => false end.
Definition is_act (b : bform) : bool := match b with Act _ _ => true | _ => false end.
Definition is_forml (b : bform) : bool := match b with FormL _ _ => true | _ => false end.

(* the function spaces of the arguments reported by arguments(), in order (space codes: 0 = V,
   1 = V*, 2 = U, 3 = U*, ...): Action contracts the last argument of the left operand with the
   first of the right one, Adjoint reverses *)
Fixpoint sig (b : bform) : list nat :=
  match b with
  | FormL sg _ => sg
  | Leaf sg _ => sg
  | Coef _ | CoefSum _ => []
  | ZeroF sg => sg
  | FSum cs => match cs with [] => [] | (c, _) :: _ => sig c end
  | Act l r => removelast (sig l) ++ (match r with Coef _ | CoefSum _ => [] | _ => tl (sig r) end)
  | Adj a => rev (sig a)
  | CoArg => [0; 1]
  | Arg => []
  | Cyclic => []
  end%nat.
(* number of arguments reported by arguments() *)
Definition rank (b : bform) : nat := length (sig b).

(* does the object contain a re-initialised (self-referential) Action ? *)
Fixpoint cyc (b : bform) : bool :=
  match b with
  | Cyclic => true
  | FSum cs => (fix go (cs : list (bform * Z)) : bool :=
                  match cs with [] => false | (c, _) :: r => cyc c || go r end) cs
  | Act l r => cyc l || cyc r
  | Adj a => cyc a
  | _ => false
  end.

(* ---------------------------------------------------------------------------------------- *)
(* the simplifying constructors                                                               *)

Definition scale_terms (w : Z) (ts : list (Z * nat)) : list (Z * nat) :=
  map (fun t => (w * fst t, snd t)) ts.

(* FormSum.__init__: drop ZeroBaseForm components *)
Definition drop_zero (cs : list (bform * Z)) : list (bform * Z) :=
  filter (fun cw => negb (is_zero (fst cw))) cs.
(* flatten nested FormSum, multiplying the weights *)
Definition flatten (cs : list (bform * Z)) : list (bform * Z) :=
  flat_map (fun cw => match fst cw with
                      | FSum cs' => map (fun cw' => (fst cw', snd cw * snd cw')) cs'
                      | _ => [cw]
                      end) cs.
(* _sum_variational_components: all Forms are summed into ONE Form of weight 1 placed first *)
Definition merged (l : list (bform * Z)) : list (Z * nat) :=
  flat_map (fun cw => match fst cw with FormL _ ts => scale_terms (snd cw) ts | _ => [] end) l.
Definition others (l : list (bform * Z)) : list (bform * Z) :=
  filter (fun cw => negb (is_forml (fst cw))) l.
Definition first_form_rank (l : list (bform * Z)) : option (list nat) :=
  match filter (fun cw => is_forml (fst cw)) l with
  | (FormL r _, _) :: _ => Some r
  | _ => None
  end.
Definition sum_variational (l : list (bform * Z)) : list (bform * Z) :=
  match first_form_rank l with
  | Some r => (FormL r (merged l), 1) :: others l
  | None => l
  end.

Definition mk_formsum (cs : list (bform * Z)) : bform :=
  if forallb (fun cw => is_zero (fst cw)) cs
  then ZeroF (match cs with (c, _) :: _ => sig c | [] => [] end)
  else match cs with
       | [(a, 1)] => a
       | _ => FSum (sum_variational (flatten (drop_zero cs)))
       end.

(* When __new__ returns an instance of the class under construction, type.__call__ runs __init__ on
   it with the ORIGINAL operands.  For a freshly built Action / Adjoint coming out of
   FormSum((x, 1)) -> x  this just undoes the simplification: *)
(* m = true: the pinned behaviour (Action.__init__ runs on whatever Action.__new__ returned);
   m = false: the behaviour with fixes/C28-action-reinit.diff (an initialised Action is left alone) *)
Definition isA (m : bool) (b : bform) : bool := m && is_act b.
Definition fixA (m : bool) (l r res : bform) : bform := if isA m res then Act l r else res.
Definition is_adj (b : bform) : bool := match b with Adj _ => true | _ => false end.

(* Action.__new__ *)
Definition act_leaf (m : bool) (c c' : bform) : bform :=   (* Action(c, c'): neither zero nor FormSum *)
  if is_ident c' then (if isA m c then Cyclic else c) else Act c c'.
Definition act_right (m : bool) (c r : bform) : bform :=   (* Action(c, r): c not zero, not FormSum *)
  if is_ident c then (if isA m r then Cyclic else r)
  else match r with
       | FSum rs => fixA m c r (mk_formsum (map (fun cw => (act_leaf m c (fst cw), snd cw)) rs))
       | CoefSum ids => fixA m c r (mk_formsum (map (fun i => (Act c (Coef i), 1)) ids))
       | _ => Act c r
       end.
Definition mk_action (m : bool) (l r : bform) : bform :=
  if cyc l || cyc r then Cyclic
  else if is_zero l || is_zero r then ZeroF (sig (Act l r))
  else if is_ident l then (if isA m r then Cyclic else r)
  else if is_ident r then (if isA m l then Cyclic else l)
  else match l with
       | FSum cs => fixA m l r (mk_formsum (map (fun cw => (act_right m (fst cw) r, snd cw)) cs))
       | _ => act_right m l r
       end.

(* exactly the operand structures on which an identity shortcut returns an Action INSTANCE, which
   Python's type.__call__ then re-initialises with itself as operand *)
Definition reinit_right (m : bool) (c r : bform) : bool :=
  if is_ident c then isA m r
  else match r with
       | FSum rs => existsb (fun cw => is_ident (fst cw) && isA m c) rs
       | _ => false
       end.
Definition reinit (m : bool) (l r : bform) : bool :=
  if is_zero l || is_zero r then false
  else if is_ident l then isA m r
  else if is_ident r then isA m l
  else match l with
       | FSum cs => existsb (fun cw => reinit_right m (fst cw) r) cs
       | _ => reinit_right m l r
       end.

(* Adjoint.__new__ *)
Definition adj1 (c : bform) : bform :=
  match c with Adj a => a | CoArg => Arg | _ => Adj c end.
Definition mk_adjoint (a : bform) : bform :=
  if cyc a then Cyclic
  else match a with
       | ZeroF sg => ZeroF (rev sg)            (* the arguments are swapped *)
       | Adj a' => a'
       | FSum cs => let res := mk_formsum (map (fun cw => (adj1 (fst cw), snd cw)) cs) in
                    if is_adj res then Adj a else res
       | CoArg => Arg
       | _ => Adj a
       end.

(* BaseForm / Form operators *)
Definition mk_add (a b : bform) : bform :=
  match a, b with
  | FormL r ta, FormL _ tb => FormL r (ta ++ tb)
  | _, _ => if is_zero b then a else if is_zero a then b else mk_formsum [(a, 1); (b, 1)]
  end.
Definition mk_neg (a : bform) : bform :=
  match a with
  | ZeroF _ => a
  | FormL r t => FormL r (scale_terms (-1) t)
  | _ => mk_formsum [(a, -1)]
  end.
Definition mk_sub (a b : bform) : bform := mk_add a (mk_neg b).
Definition mk_rmul (w : Z) (a : bform) : bform :=
  match a with
  | FormL r t => FormL r (scale_terms w t)
  | _ => mk_formsum [(a, w)]
  end.

(* nested induction principle for bform *)
Section BformInd.
Variable P : bform -> Prop.
Hypothesis HFormL : forall sg ts, P (FormL sg ts).
Hypothesis HLeaf : forall sg i, P (Leaf sg i).
Hypothesis HCoef : forall i, P (Coef i).
Hypothesis HCoefSum : forall ids, P (CoefSum ids).
Hypothesis HZeroF : forall sg, P (ZeroF sg).
Hypothesis HFSum : forall cs, Forall (fun cw => P (fst cw)) cs -> P (FSum cs).
Hypothesis HAct : forall l r, P l -> P r -> P (Act l r).
Hypothesis HAdj : forall a, P a -> P (Adj a).
Hypothesis HCoArg : P CoArg.
Hypothesis HArg : P Arg.
Hypothesis HCyclic : P Cyclic.
Fixpoint bform_ind' (b : bform) : P b :=
  match b with
  | FormL sg ts => HFormL sg ts
  | Leaf sg i => HLeaf sg i
  | Coef i => HCoef i
  | CoefSum ids => HCoefSum ids
  | ZeroF sg => HZeroF sg
  | FSum cs => HFSum cs
      ((fix aux (l : list (bform * Z)) : Forall (fun cw => P (fst cw)) l :=
          match l with
          | [] => Forall_nil _
          | cw :: r => Forall_cons cw (match cw as p return P (fst p) with (c, _) => bform_ind' c end) (aux r)
          end) cs)
  | Act l r => HAct l r (bform_ind' l) (bform_ind' r)
  | Adj a => HAdj a (bform_ind' a)
  | CoArg => HCoArg
  | Arg => HArg
  | Cyclic => HCyclic
  end.
End BformInd.

(* map_integrands (ufl/algorithms/map_integrands.py) for a function that makes the base forms KF and
   the Matrix/Cofunction leaves KX vanish (integrand -> Zero, leaf -> ZeroBaseForm) and is the identity
   elsewhere.  FormSum branch: the mapped components that vanished are dropped TOGETHER WITH THEIR
   WEIGHTS; all vanished -> ZeroBaseForm(arguments of the first mapped component); one survivor of
   weight 1 -> the survivor; Adjoint / Action are rebuilt through their constructors. *)
Definition memb (i : nat) (l : list nat) : bool := existsb (Nat.eqb i) l.
Definition map_fs (mapped : list (bform * Z)) : bform :=
  match drop_zero mapped with
  | [] => ZeroF (match mapped with (c, _) :: _ => sig c | [] => [] end)
  | nz => mk_formsum nz
  end.
Definition keep_terms (KF : list nat) (ts : list (Z * nat)) : list (Z * nat) :=
  filter (fun t => negb (memb (snd t) KF)) ts.
Fixpoint mapK (m : bool) (KF KX : list nat) (b : bform) : bform :=
  match b with
  | FormL sg ts => match keep_terms KF ts with [] => FormL [] [] | ts' => FormL sg ts' end
  | Leaf sg i => if memb i KX then ZeroF sg else b
  | FSum cs => map_fs ((fix go (cs : list (bform * Z)) : list (bform * Z) :=
                          match cs with [] => [] | (c, w) :: r => (mapK m KF KX c, w) :: go r end) cs)
  | Act l r => mk_action m (mapK m KF KX l) (mapK m KF KX r)
  | Adj a => mk_adjoint (mapK m KF KX a)
  | _ => b
  end.
(* the rebuilt Action / Adjoint calls stay outside the re-initialisation class *)
Fixpoint msafe (m : bool) (KF KX : list nat) (b : bform) : bool :=
  match b with
  | FSum cs => (fix go (cs : list (bform * Z)) : bool :=
                  match cs with [] => true | (c, _) :: r => msafe m KF KX c && go r end) cs
  | Act l r => msafe m KF KX l && msafe m KF KX r
               && negb (cyc (mapK m KF KX l)) && negb (cyc (mapK m KF KX r))
               && negb (reinit m (mapK m KF KX l) (mapK m KF KX r))
  | Adj a => msafe m KF KX a && negb (cyc (mapK m KF KX a))
  | _ => true
  end.

(* compositions: the syntax the theorems quantify over *)
Inductive bexp :=
 | EObj (b : bform)                 (* a leaf object: Form, Matrix, Cofunction, Coefficient, ... *)
 | EAdd (a b : bexp) | ESub (a b : bexp) | ENeg (a : bexp) | EMul (w : Z) (a : bexp)
 (* a literal zero (0, 0.0, ufl Zero) as the other operand: a + 0, 0 + a (sum([...])), a - 0, and the
    reflected subtraction 0 - a = BaseForm.__rsub__ *)
 | EAddZero (a : bexp) | ESubZero (a : bexp) | ERSubZero (a : bexp)
 | EFormSum1 (a : bexp) (w : Z)
 | EFormSum2 (a : bexp) (wa : Z) (b : bexp) (wb : Z)
 | EFormSum3 (a : bexp) (wa : Z) (b : bexp) (wb : Z) (c : bexp) (wc : Z)
 | EAction (l r : bexp)
 | EAdjoint (a : bexp).

Fixpoint build (m : bool) (e : bexp) : bform :=
  match e with
  | EObj b => b
  | EAdd a b => mk_add (build m a) (build m b)
  | ESub a b => mk_sub (build m a) (build m b)
  | ENeg a => mk_neg (build m a)
  | EAddZero a | ESubZero a => build m a
  | ERSubZero a => mk_neg (build m a)       (* other + (-self) with other = 0 *)
  | EMul w a => mk_rmul w (build m a)
  | EFormSum1 a w => mk_formsum [(build m a, w)]
  | EFormSum2 a wa b wb => mk_formsum [(build m a, wa); (build m b, wb)]
  | EFormSum3 a wa b wb c wc => mk_formsum [(build m a, wa); (build m b, wb); (build m c, wc)]
  | EAction l r => mk_action m (build m l) (build m r)
  | EAdjoint a => mk_adjoint (build m a)
  end.

(* ---------------------------------------------------------------------------------------- *)
Section Semantics.
Variable T : Type.
Variables (tzero : T) (tadd : T -> T -> T) (tscale : Z -> T -> T).
Variables (contract : T -> T -> T) (transp : T -> T) (ident : T).
Variable F : nat -> T.                (* base variational forms *)
Variable X : nat -> T.                (* Matrix / Cofunction leaves *)
Variable Y : nat -> T.                (* Coefficients *)
Variable junk : T.                    (* a re-initialised Action has no meaning *)

Hypothesis A1 : forall a b, tadd a b = tadd b a.
Hypothesis A2 : forall a b c, tadd a (tadd b c) = tadd (tadd a b) c.
Hypothesis A3 : forall a, tadd tzero a = a.
Hypothesis S1 : forall a, tscale 1 a = a.
Hypothesis S2 : forall w w' a, tscale w (tscale w' a) = tscale (w * w') a.
Hypothesis S3 : forall w a b, tscale w (tadd a b) = tadd (tscale w a) (tscale w b).
Hypothesis S4 : forall w, tscale w tzero = tzero.
Hypothesis C1 : forall a b c, contract (tadd a b) c = tadd (contract a c) (contract b c).
Hypothesis C2 : forall w a c, contract (tscale w a) c = tscale w (contract a c).
Hypothesis C3 : forall c, contract tzero c = tzero.
Hypothesis C1' : forall a b c, contract c (tadd a b) = tadd (contract c a) (contract c b).
Hypothesis C2' : forall w a c, contract c (tscale w a) = tscale w (contract c a).
Hypothesis C3' : forall c, contract c tzero = tzero.
Hypothesis T1 : forall a, transp (transp a) = a.
Hypothesis T2 : forall a b, transp (tadd a b) = tadd (transp a) (transp b).
Hypothesis T3 : forall w a, transp (tscale w a) = tscale w (transp a).
Hypothesis T4 : transp tzero = tzero.
Hypothesis I1 : forall a, contract ident a = a.
Hypothesis I2 : forall a, contract a ident = a.
Hypothesis I3 : transp ident = ident.

Lemma A3r a : tadd a tzero = a.
Proof. rewrite A1; apply A3. Qed.

Definition tsum_terms (ts : list (Z * nat)) : T :=
  fold_right (fun t acc => tadd (tscale (fst t) (F (snd t))) acc) tzero ts.

Fixpoint assemble (b : bform) : T :=
  match b with
  | FormL _ ts => tsum_terms ts
  | Leaf _ i => X i
  | Coef i => Y i
  | CoefSum ids => fold_right (fun i acc => tadd (Y i) acc) tzero ids
  | ZeroF _ => tzero
  | FSum cs => (fix go (cs : list (bform * Z)) : T :=
                  match cs with [] => tzero | (c, w) :: r => tadd (tscale w (assemble c)) (go r) end) cs
  | Act l r => contract (assemble l) (assemble r)
  | Adj a => transp (assemble a)
  | CoArg | Arg => ident
  | Cyclic => junk
  end.

Definition wsum (cs : list (bform * Z)) : T :=
  fold_right (fun cw acc => tadd (tscale (snd cw) (assemble (fst cw))) acc) tzero cs.

Lemma assemble_FSum cs : assemble (FSum cs) = wsum cs.
Proof. simpl. induction cs as [|[c w] r IH]; simpl; auto. rewrite IH. reflexivity. Qed.

Lemma wsum_app l1 l2 : wsum (l1 ++ l2) = tadd (wsum l1) (wsum l2).
Proof. induction l1 as [|[c w] r IH]; simpl; [symmetry; apply A3|]. rewrite IH. apply A2. Qed.

Lemma tsum_app l1 l2 : tsum_terms (l1 ++ l2) = tadd (tsum_terms l1) (tsum_terms l2).
Proof. induction l1 as [|t r IH]; simpl; [symmetry; apply A3|]. rewrite IH. apply A2. Qed.

Lemma tsum_scale w ts : tsum_terms (scale_terms w ts) = tscale w (tsum_terms ts).
Proof.
  induction ts as [|t r IH]; simpl; [symmetry; apply S4|]. rewrite IH, S3, S2. reflexivity.
Qed.

Lemma wsum_scale w cs :
  wsum (map (fun cw' => (fst cw', w * snd cw')) cs) = tscale w (wsum cs).
Proof.
  induction cs as [|[c w'] r IH]; simpl; [symmetry; apply S4|]. rewrite IH, S3, S2. reflexivity.
Qed.

Lemma wsum_drop_zero cs : wsum (drop_zero cs) = wsum cs.
Proof.
  induction cs as [|[c w] r IH]; simpl; auto.
  destruct c; simpl; rewrite ?IH; auto. rewrite S4, A3. reflexivity.
Qed.

Lemma wsum_flatten cs : wsum (flatten cs) = wsum cs.
Proof.
  induction cs as [|[c w] r IH]; simpl; auto.
  rewrite wsum_app, IH. f_equal.
  destruct c; simpl; rewrite ?A3r; auto.
  rewrite wsum_scale. f_equal. symmetry. exact (assemble_FSum cs).
Qed.

Lemma wsum_split cs :
  wsum cs = tadd (tsum_terms (merged cs)) (wsum (others cs)).
Proof.
  induction cs as [|[c w] r IH]; simpl; [symmetry; apply A3|].
  unfold merged, others in *. simpl.
  destruct c; simpl; rewrite IH;
    try (rewrite !A2; f_equal; apply A1).
  rewrite tsum_app, tsum_scale. rewrite A2. reflexivity.
Qed.

Lemma wsum_sum_variational cs : wsum (sum_variational cs) = wsum cs.
Proof.
  unfold sum_variational. destruct (first_form_rank cs); auto.
  simpl. rewrite S1. symmetry. apply wsum_split.
Qed.

Lemma wsum_all_zero cs : forallb (fun cw => is_zero (fst cw)) cs = true -> wsum cs = tzero.
Proof.
  induction cs as [|[c w] r IH]; simpl; auto. intros H. apply andb_true_iff in H. destruct H as [H1 H2].
  destruct c; try discriminate. simpl. rewrite S4, A3. auto.
Qed.

(** FormSum.__new__/__init__ : zero elimination, flattening, weight products, merging of the
    variational components, FormSum((a, 1)) -> a  preserve the weighted sum, for ALL component lists *)
Theorem C28_formsum_sound : forall cs, assemble (mk_formsum cs) = wsum cs.
Proof.
  intros cs. unfold mk_formsum.
  destruct (forallb (fun cw => is_zero (fst cw)) cs) eqn:E.
  - simpl. symmetry. apply wsum_all_zero; auto.
  - assert (G : assemble (FSum (sum_variational (flatten (drop_zero cs)))) = wsum cs).
    { rewrite assemble_FSum, wsum_sum_variational, wsum_flatten, wsum_drop_zero. reflexivity. }
    destruct cs as [|[a w] t]; try exact G.
    destruct w as [|q|q]; try (destruct t; exact G).
    destruct q; try (destruct t; exact G).
    destruct t; try exact G. simpl. rewrite S1, A3r. reflexivity.
Qed.

Lemma wsum_map_contract_l (g : bform -> bform) (t : T) cs :
  (forall c, In c (map fst cs) -> assemble (g c) = contract (assemble c) t) ->
  wsum (map (fun cw => (g (fst cw), snd cw)) cs) = contract (wsum cs) t.
Proof.
  induction cs as [|[c w] r IH]; simpl; intros H; [symmetry; apply C3|].
  rewrite IH by (intros; apply H; auto). rewrite C1, C2, H by auto. reflexivity.
Qed.

Lemma wsum_map_contract_r (g : bform -> bform) (t : T) cs :
  (forall c, In c (map fst cs) -> assemble (g c) = contract t (assemble c)) ->
  wsum (map (fun cw => (g (fst cw), snd cw)) cs) = contract t (wsum cs).
Proof.
  induction cs as [|[c w] r IH]; simpl; intros H; [symmetry; apply C3'|].
  rewrite IH by (intros; apply H; auto). rewrite C1', C2', H by auto. reflexivity.
Qed.

Lemma act_leaf_sound m c c' : (is_ident c' && isA m c) = false ->
  assemble (act_leaf m c c') = contract (assemble c) (assemble c').
Proof.
  unfold act_leaf. intros H. destruct (is_ident c') eqn:E; auto.
  simpl in H. rewrite H. destruct c'; try discriminate; simpl; rewrite I2; auto.
Qed.

Lemma fixA_sound m l r res : assemble res = contract (assemble l) (assemble r) ->
  assemble (fixA m l r res) = contract (assemble l) (assemble r).
Proof. unfold fixA. destruct (isA m res); auto. Qed.

Lemma act_right_sound m c r : reinit_right m c r = false ->
  assemble (act_right m c r) = contract (assemble c) (assemble r).
Proof.
  unfold act_right, reinit_right. intros H. destruct (is_ident c) eqn:E.
  - rewrite H. destruct c; try discriminate; simpl; rewrite I1; auto.
  - destruct r; auto.
    + (* CoefSum *) apply fixA_sound. rewrite C28_formsum_sound. simpl.
      induction ids as [|i ids IH]; simpl; [symmetry; apply C3'|].
      rewrite IH, C1', S1. reflexivity.
    + (* FSum *) apply fixA_sound. rewrite C28_formsum_sound, assemble_FSum.
      apply wsum_map_contract_r. intros c' Hc'. apply act_leaf_sound.
      apply in_map_iff in Hc'. destruct Hc' as [cw [Ec Hin]]. subst c'.
      destruct (is_ident (fst cw) && isA m c) eqn:E2; auto.
      exfalso. rewrite <- not_true_iff_false in H. apply H. apply existsb_exists. exists cw; auto.
Qed.

(** Action.__new__ : zero, identity (Argument / Coargument), distribution over FormSum on either
    side and over sums of Coefficients preserve the contraction - for ALL operands outside the
    re-initialisation class [reinit] *)
Theorem C28_action_partial : forall m l r, cyc l = false -> cyc r = false -> reinit m l r = false ->
  assemble (mk_action m l r) = contract (assemble l) (assemble r).
Proof.
  intros m l r Hl Hr H. unfold mk_action, reinit in *. rewrite Hl, Hr. simpl.
  destruct (is_zero l || is_zero r) eqn:Ez.
  - simpl. apply orb_true_iff in Ez. destruct Ez as [Ez|Ez].
    + destruct l; try discriminate. simpl. symmetry; apply C3.
    + destruct r; try discriminate. simpl. symmetry; apply C3'.
  - destruct (is_ident l) eqn:El.
    + rewrite H. destruct l; try discriminate; simpl; rewrite I1; auto.
    + destruct (is_ident r) eqn:Er.
      * rewrite H. destruct r; try discriminate; simpl; rewrite I2; auto.
      * destruct l; try (apply act_right_sound; exact H).
        apply fixA_sound. rewrite C28_formsum_sound, assemble_FSum.
        apply (wsum_map_contract_l (fun c => act_right m c r)). intros c Hc. apply act_right_sound.
        apply in_map_iff in Hc. destruct Hc as [cw [Ec Hin]]. subst c.
        destruct (reinit_right m (fst cw) r) eqn:E2; auto.
        exfalso. rewrite <- not_true_iff_false in H. apply H. apply existsb_exists. exists cw; auto.
Qed.

Lemma adj1_sound c : assemble (adj1 c) = transp (assemble c).
Proof. destruct c; simpl; auto. Qed.

(** Adjoint.__new__ : adjoint of zero, of an adjoint, of a FormSum, of a Coargument *)
Theorem C28_adjoint_sound : forall a, cyc a = false ->
  assemble (mk_adjoint a) = transp (assemble a).
Proof.
  intros a Ha. unfold mk_adjoint. rewrite Ha.
  destruct a; simpl; auto.
  match goal with |- assemble (if ?b then _ else _) = _ => destruct b; [reflexivity|] end.
  rewrite C28_formsum_sound.
  change ((fix go (cs0 : list (bform * Z)) : T :=
             match cs0 with [] => tzero | (c, w) :: r => tadd (tscale w (assemble c)) (go r) end) cs)
    with (assemble (FSum cs)).
  rewrite assemble_FSum.
  induction cs as [|[c w] r IH]; simpl; [symmetry; apply T4|].
  assert (Hr : cyc (FSum r) = false).
  { simpl in Ha. apply orb_false_iff in Ha. destruct Ha as [_ Ha]. exact Ha. }
  rewrite (IH Hr), T2, T3, adj1_sound. reflexivity.
Qed.

Theorem C28_add_sound : forall a b, assemble (mk_add a b) = tadd (assemble a) (assemble b).
Proof.
  intros a b. unfold mk_add.
  assert (G : assemble (if is_zero b then a else if is_zero a then b else mk_formsum [(a, 1); (b, 1)])
              = tadd (assemble a) (assemble b)).
  { destruct (is_zero b) eqn:Eb.
    - destruct b; try discriminate. simpl. symmetry; apply A3r.
    - destruct (is_zero a) eqn:Ea.
      + destruct a; try discriminate. simpl. symmetry; apply A3.
      + rewrite C28_formsum_sound. simpl. rewrite !S1, A3r. reflexivity. }
  destruct a; auto. destruct b; auto. simpl. apply tsum_app.
Qed.

Theorem C28_neg_sound : forall a, assemble (mk_neg a) = tscale (-1) (assemble a).
Proof.
  intros a. unfold mk_neg.
  destruct a; try (rewrite C28_formsum_sound; simpl; rewrite A3r; reflexivity).
  - simpl. apply tsum_scale.
  - simpl. symmetry; apply S4.
Qed.

Theorem C28_rmul_sound : forall w a, assemble (mk_rmul w a) = tscale w (assemble a).
Proof.
  intros w a. unfold mk_rmul.
  destruct a; try (rewrite C28_formsum_sound; simpl; rewrite A3r; reflexivity).
  simpl. apply tsum_scale.
Qed.

(* the intended value of map_integrands(kill KF, KX): the killed leaves denote zero *)
Section MapIntegrands.
Variables (m : bool) (KF KX : list nat).
Fixpoint assembleK (b : bform) : T :=
  match b with
  | FormL _ ts => tsum_terms (keep_terms KF ts)
  | Leaf _ i => if memb i KX then tzero else X i
  | FSum cs => (fix go (cs : list (bform * Z)) : T :=
                  match cs with [] => tzero | (c, w) :: r => tadd (tscale w (assembleK c)) (go r) end) cs
  | Act l r => contract (assembleK l) (assembleK r)
  | Adj a => transp (assembleK a)
  | _ => assemble b
  end.

Lemma map_fs_sound mapped : assemble (map_fs mapped) = wsum mapped.
Proof.
  unfold map_fs. rewrite <- (wsum_drop_zero mapped).
  destruct (drop_zero mapped) eqn:E; [reflexivity|]. rewrite <- E. apply C28_formsum_sound.
Qed.

(** map_integrands preserves the map: for ALL base forms b (nested induction) whose rebuilt Action
    calls stay outside the re-initialisation class *)
Theorem C28_map_integrands_partial : forall b, msafe m KF KX b = true ->
  assemble (mapK m KF KX b) = assembleK b.
Proof.
  induction b using bform_ind'; intros Hs; try reflexivity.
  - (* Form *) simpl. destruct (keep_terms KF ts); reflexivity.
  - (* leaf *) simpl. destruct (memb i KX); reflexivity.
  - (* FormSum *) simpl. rewrite map_fs_sound. simpl in Hs.
    induction cs as [|[c w] r IHr]; [reflexivity|].
    inversion H as [|? ? Hc Hr]; subst. apply andb_true_iff in Hs. destruct Hs as [Hs1 Hs2].
    simpl in Hc. simpl. rewrite (Hc Hs1). f_equal. apply IHr; assumption.
  - (* Action *) simpl in *.
    repeat match goal with
           | H : _ && _ = true |- _ => apply andb_true_iff in H; destruct H
           | H : negb _ = true |- _ => apply negb_true_iff in H
           end.
    rewrite C28_action_partial, IHb1, IHb2; auto.
  - (* Adjoint *) simpl in *.
    repeat match goal with
           | H : _ && _ = true |- _ => apply andb_true_iff in H; destruct H
           | H : negb _ = true |- _ => apply negb_true_iff in H
           end.
    rewrite C28_adjoint_sound, IHb; auto.
Qed.
End MapIntegrands.

(* the specification of a composition: plain multilinear algebra, no simplification *)
Fixpoint denote (e : bexp) : T :=
  match e with
  | EObj b => assemble b
  | EAdd a b => tadd (denote a) (denote b)
  | ESub a b => tadd (denote a) (tscale (-1) (denote b))
  | ENeg a => tscale (-1) (denote a)
  | EAddZero a | ESubZero a => denote a
  | ERSubZero a => tscale (-1) (denote a)
  | EMul w a => tscale w (denote a)
  | EFormSum1 a w => tscale w (denote a)
  | EFormSum2 a wa b wb => tadd (tscale wa (denote a)) (tscale wb (denote b))
  | EFormSum3 a wa b wb c wc => tadd (tscale wa (denote a)) (tadd (tscale wb (denote b)) (tscale wc (denote c)))
  | EAction l r => contract (denote l) (denote r)
  | EAdjoint a => transp (denote a)
  end.

(* no constructor call of the composition falls into the re-initialisation class *)
Fixpoint safe (m : bool) (e : bexp) : bool :=
  match e with
  | EObj b => true
  | EAdd a b | ESub a b => safe m a && safe m b
  | ENeg a | EMul _ a | EFormSum1 a _ | EAddZero a | ESubZero a | ERSubZero a => safe m a
  | EAdjoint a => safe m a && negb (cyc (build m a))
  | EFormSum2 a _ b _ => safe m a && safe m b
  | EFormSum3 a _ b _ c _ => safe m a && safe m b && safe m c
  | EAction l r => safe m l && safe m r && negb (cyc (build m l)) && negb (cyc (build m r))
                   && negb (reinit m (build m l) (build m r))
  end.

(** Main theorem: for ALL compositions (induction on the syntax) whose Action calls stay outside the
    re-initialisation class, the object built by the simplifying constructors assembles to the
    multilinear map the composition denotes. *)
Theorem C28_build_partial : forall m e, safe m e = true -> assemble (build m e) = denote e.
Proof.
  intros m. induction e; simpl; intros H;
    repeat match goal with
           | H : _ && _ = true |- _ => apply andb_true_iff in H; destruct H
           | H : negb _ = true |- _ => apply negb_true_iff in H
           end.
  - reflexivity.
  - rewrite C28_add_sound, IHe1, IHe2; auto.
  - unfold mk_sub. rewrite C28_add_sound, C28_neg_sound, IHe1, IHe2; auto.
  - rewrite C28_neg_sound, IHe; auto.
  - rewrite C28_rmul_sound, IHe; auto.
  - auto.
  - auto.
  - rewrite C28_neg_sound, IHe; auto.
  - rewrite C28_formsum_sound. simpl. rewrite A3r, IHe; auto.
  - rewrite C28_formsum_sound. simpl. rewrite A3r, IHe1, IHe2; auto.
  - rewrite C28_formsum_sound. simpl. rewrite A3r, IHe1, IHe2, IHe3; auto.
  - rewrite C28_action_partial, IHe1, IHe2; auto.
  - rewrite C28_adjoint_sound, IHe; auto.
Qed.

(* ---------------------------------------------------------------------------------------- *)
(* reported number of arguments follows argument contraction *)
End Semantics.

(** The identity shortcut of Action.__new__ returns its other operand; when that operand is itself
    an Action, type.__call__ runs Action.__init__(operand, left, right) on it: the existing object
    becomes its own operand.  Faithful model: the result is [Cyclic]. *)
Theorem C28_action_refuted :
  exists l r, cyc l = false /\ cyc r = false /\ cyc (mk_action true l r) = true.
Proof.
  exists (Act (Leaf [0; 1] 0) (Leaf [0; 1] 1))%nat, CoArg. repeat split; reflexivity.
Qed.

(* arguments(): the spaces follow argument contraction also on the simplified results *)
Lemma sig_act_length l r : rank (Act l r) = (rank l - 1 + (rank r - 1))%nat.
Proof.
  unfold rank. simpl.
  assert (E : (match r with Coef _ | CoefSum _ => [] | _ => tl (sig r) end) = tl (sig r)).
  { destruct r; reflexivity. }
  rewrite E, app_length. f_equal.
  - destruct (sig l) as [|x t] using rev_ind; auto. rewrite removelast_last, app_length. simpl. lia.
  - destruct (sig r); simpl; lia.
Qed.

Theorem C28_action_zero_sig : forall l r, cyc l = false -> cyc r = false ->
  is_zero l || is_zero r = true -> forall m, sig (mk_action m l r) = sig (Act l r).
Proof. intros l r Hl Hr H m. unfold mk_action. rewrite Hl, Hr, H. reflexivity. Qed.

Theorem C28_adjoint_sig : forall a, cyc a = false -> (forall cs, a <> FSum cs) -> a <> CoArg ->
  sig (mk_adjoint a) = rev (sig a).
Proof.
  intros a Ha Hf Hc. unfold mk_adjoint. rewrite Ha. destruct a; try reflexivity.
  - exfalso; eapply Hf; reflexivity.
  - simpl. symmetry. apply rev_involutive.
  - contradiction.
Qed.

(* The argument NUMBERS reported by arguments() (faithful to _get_action_form_arguments, which keeps
   the numbers of the operands:  left_args[:-1] + right_args[1:],  to Adjoint, which renumbers from 0,
   and to FormSum, which reports the sorted set union of its components' arguments). *)
Fixpoint uins (n : nat) (l : list nat) : list nat :=
  match l with
  | [] => [n]
  | m :: r => if (n <? m)%nat then n :: l else if (n =? m)%nat then l else m :: uins n r
  end.
Fixpoint nums (b : bform) : list nat :=
  match b with
  | FormL sg _ => seq 0 (length sg)
  | Leaf sg _ => seq 0 (length sg)
  | Coef _ | CoefSum _ => []
  | ZeroF sg => seq 0 (length sg)
  | FSum cs => (fix go (cs : list (bform * Z)) : list nat :=
                  match cs with [] => [] | (c, _) :: r => fold_right uins (go r) (nums c) end) cs
  | Act l r => removelast (nums l) ++ (match r with Coef _ | CoefSum _ => [] | _ => tl (nums r) end)
  | Adj a => seq 0 (length (nums a))
  | CoArg => [0%nat; 1%nat]
  | Arg => []
  | Cyclic => []
  end.

Lemma C28_arguments_action : forall l r,
  length (nums (Act l r)) = (length (nums l) - 1 + (length (nums r) - 1))%nat.
Proof.
  intros l r. simpl.
  assert (E : (match r with Coef _ | CoefSum _ => [] | _ => tl (nums r) end) = tl (nums r)).
  { destruct r; reflexivity. }
  rewrite E, app_length. f_equal.
  - destruct (nums l) as [|x t] using rev_ind; auto. rewrite removelast_last, app_length. simpl. lia.
  - destruct (nums r); simpl; lia.
Qed.

(** Because Action keeps the operands' argument numbers, two 1-forms can carry differently numbered
    arguments and their sum reports TWO arguments: a1 = Action(Adjoint(M), u) has (Coargument #0),
    a2 = Action(Action(Adjoint(M'), u), M'') has (Coargument #1). *)
Theorem C28_arguments_refuted :
  exists a b, length (nums a) = 1%nat /\ length (nums b) = 1%nat /\ rank (mk_add a b) = 1%nat
              /\ length (nums (mk_add a b)) = 2%nat.
Proof.
  exists (Act (Adj (Leaf [0; 1] 0)) (Coef 0))%nat, (Act (Act (Adj (Leaf [0; 1] 1)) (Coef 0)) (Leaf [0; 1] 2))%nat.
  repeat split; reflexivity.
Qed.

(* consistency of the hypotheses: they hold for the integers (rank-0 tensors: contraction = product,
   transpose = identity) *)
Theorem C28_laws_consistent : forall m (e : bexp), safe m e = true ->
  @assemble Z 0 Z.add Z.mul Z.mul (fun a => a) 1 (fun _ => 1) (fun _ => 1) (fun _ => 1) 0 (build m e)
  = @denote Z 0 Z.add Z.mul Z.mul (fun a => a) 1 (fun _ => 1) (fun _ => 1) (fun _ => 1) 0 e.
Proof.
  intros m e H. apply (C28_build_partial _ _ _ _ _ _ _ _ _ _ _) with (m := m); intros; try ring; auto.
Qed.

Print Assumptions C28_formsum_sound.
Print Assumptions C28_action_partial.
Print Assumptions C28_adjoint_sound.
Print Assumptions C28_build_partial.
Print Assumptions C28_map_integrands_partial.
Print Assumptions C28_action_refuted.
Print Assumptions C28_arguments_refuted.
Print Assumptions C28_laws_consistent.
