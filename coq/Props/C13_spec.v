(* C13 - Structural equality, hashing and repr are consistent: class-level model.

   Every terminal / form-level class of UFL defines __eq__ (or .equals), __repr__ and a hash method.
   The T1 translator (py/C13_t1.py) reads these methods with Python's `ast` and emits, per class, a
   [spec]:
     eqs : the conjunction __eq__ returns (one [conj] per compared pair of attribute reads),
     rep : the attribute reads __repr__ renders (the repr string is a function of these),
     hsh : the attribute reads the hash method feeds into hash() (or "hash(repr(self))").
   Attribute VALUES (counts, shapes, domains, function spaces, elements, metadata, operands ...) are
   elements of an abstract type V with Python's == as [veq]; how a value is shown (repr, str,
   format_float, hash(x), x._ufl_hash_data_(), ...) is a "rendering kind" k, and an attribute can be
   compared through a "view" (id_or_none(x), len(x), sorted id items ...).

   Main theorem [wf_consistent]: for EVERY spec that passes the decidable check [wf_spec], and for
   every interpretation of values satisfying the hypotheses (== on attribute values is an
   equivalence; == on a faithful view implies equal rendering), the modelled == is an equivalence
   relation and implies equal repr data and equal hash data.  The generated files prove
   [wf_spec <Class>_spec = true] by computation, so the statement is re-checked against the source on
   every run.  A class whose __eq__ compares a subset of what repr prints fails [wf_spec]; for such a
   spec the generated file proves [refuted_statement] (a counter-model) and [partial_statement]. *)

From Coq Require Import List Bool Arith Lia Sorted.
Import ListNotations.

Inductive owner := Self | Other.

(* view 0: the value itself; 1: id_or_none(x) (object identity / ufl_id); 2: sorted (key, id(value))
   items of a dict; 3: len(x); 4: int(x); >= 5: unknown view *)
(* kind 0: repr(x) / {x!r}; 1: str(x) / {x}; 2: format_float(x); 3: hash(x); 4: x._ufl_hash_data_();
   5: repr of a dict whose insertion order is not canonical (NOT a function of the ==-class: Python
      dicts compare order-insensitively, repr follows insertion order);
   6: the value itself inside hash data; 7: items of a dict with canonical (sorted) insertion order;
   8: ", ".join(map(repr, x)) of a tuple; 9: identity-dependent (see below); >= 10: other pure
   functions of the value (table lookup, truthiness, ...) *)
Inductive conj :=
 | Cmp (ol : owner) (fl vl : nat) (orr : owner) (fr vr : nat)
 | CRepr        (* repr(self) == repr(other) *)
 | CHash.       (* hash(self) == hash(other) / hash data compared *)

Inductive tok := TF (f k : nat) | TSelfId.   (* rendering k of attribute f | id(self) *)

Inductive hspec := HOfRepr | HToks (l : list tok).

Record spec := { eqs : list conj; rep : list tok; hsh : hspec }.

(* kind 9: identity-dependent rendering (id(x), id_or_none(x), (key, id(value)) items): NOT a function
   of the ==-class of x; faithful only under the identity views 1 and 2 *)
Definition kind_faithful (k : nat) : bool := negb (k =? 5) && negb (k =? 9).
Definition faithful (v k : nat) : bool :=
  match v with 0 => kind_faithful k | 1 | 2 => true | _ => false end.

Definition owner_eqb a b := match a, b with Self, Self | Other, Other => true | _, _ => false end.

Definition proper (c : conj) : bool :=
  match c with
  | Cmp Self fl vl Other fr vr | Cmp Other fl vl Self fr vr => (fl =? fr) && (vl =? vr)
  | Cmp _ _ _ _ _ _ => false
  | CRepr | CHash => true
  end.

(* a conjunct that is always true: both sides read the same attribute of the same object *)
Definition trivial (c : conj) : bool :=
  match c with
  | Cmp ol fl vl orr fr vr => owner_eqb ol orr && (fl =? fr) && (vl =? vr)
  | _ => false
  end.

Definition covers (t : tok) (c : conj) : bool :=
  match t, c with
  | TF f k, Cmp Self fl vl Other fr vr | TF f k, Cmp Other fl vl Self fr vr =>
      (f =? fl) && (f =? fr) && (vl =? vr) && faithful vl k
  | _, _ => false
  end.

Definition is_crepr c := match c with CRepr => true | _ => false end.
Definition is_chash c := match c with CHash => true | _ => false end.

Definition covered (s : spec) (t : tok) : bool := existsb (covers t) (eqs s).

Definition wf_spec (s : spec) : bool :=
  forallb proper (eqs s)
  && (existsb is_crepr (eqs s) || forallb (covered s) (rep s))
  && match hsh s with
     | HOfRepr => true
     | HToks l => existsb is_chash (eqs s) || forallb (covered s) l
     end.

Definition partial_ok (s : spec) : bool := forallb (fun c => proper c || trivial c) (eqs s).

Section Generic.
  Variables (O V R : Type).
  Variable fld : O -> nat -> V.            (* attribute f of an object *)
  Variable oid : O -> R.                   (* id(self) *)
  Variable veq : V -> V -> bool.           (* Python == on attribute values *)
  Variable vw : nat -> V -> V.             (* views *)
  Variable rend : nat -> V -> R.           (* renderings *)

  Definition sel (o : owner) (a b : O) := match o with Self => a | Other => b end.
  Definition tokval (o : O) (t : tok) : R :=
    match t with TF f k => rend k (fld o f) | TSelfId => oid o end.
  Definition reprdata (s : spec) (o : O) : list R := map (tokval o) (rep s).
  Definition hashdata (s : spec) (o : O) : list R :=
    match hsh s with HOfRepr => reprdata s o | HToks l => map (tokval o) l end.

  Definition holds (s : spec) (a b : O) (c : conj) : Prop :=
    match c with
    | Cmp ol fl vl orr fr vr => veq (vw vl (fld (sel ol a b) fl)) (vw vr (fld (sel orr a b) fr)) = true
    | CRepr => reprdata s a = reprdata s b
    | CHash => hashdata s a = hashdata s b
    end.

  (* the modelled __eq__ : the conjunction of all conjuncts *)
  Definition eqP (s : spec) (a b : O) : Prop := Forall (holds s a b) (eqs s).

  Definition hyps : Prop :=
    (forall x, veq x x = true) /\
    (forall x y, veq x y = true -> veq y x = true) /\
    (forall x y z, veq x y = true -> veq y z = true -> veq x z = true) /\
    (forall v k, faithful v k = true ->
       forall x y, veq (vw v x) (vw v y) = true -> rend k x = rend k y).

  Definition consistent (s : spec) : Prop :=
    (forall a, eqP s a a) /\
    (forall a b, eqP s a b -> eqP s b a) /\
    (forall a b c, eqP s a b -> eqP s b c -> eqP s a c) /\
    (forall a b, eqP s a b -> reprdata s a = reprdata s b /\ hashdata s a = hashdata s b).

  (* what still holds for a class with always-true conjuncts / uncovered attributes *)
  Definition partially_consistent (s : spec) : Prop :=
    (forall a, eqP s a a) /\
    (forall a b, eqP s a b -> eqP s b a) /\
    (forall a b c, eqP s a b -> eqP s b c -> eqP s a c) /\
    (forall a b, eqP s a b ->
       forall t, covered s t = true -> tokval a t = tokval b t).

  Hypothesis H : hyps.

  Lemma proper_inv c : proper c = true ->
    c = CRepr \/ c = CHash \/ exists f v, c = Cmp Self f v Other f v \/ c = Cmp Other f v Self f v.
  Proof.
    destruct c as [ol fl vl orr fr vr| |]; simpl; auto.
    destruct ol, orr; try discriminate;
    intro E; apply andb_prop in E as [E1 E2];
    apply Nat.eqb_eq in E1, E2; subst; right; right; eauto.
  Qed.

  Lemma trivial_inv c : trivial c = true -> exists o f v, c = Cmp o f v o f v.
  Proof.
    destruct c as [ol fl vl orr fr vr| |]; simpl; try discriminate.
    intro E. apply andb_prop in E as [E E2]. apply andb_prop in E as [E0 E1].
    apply Nat.eqb_eq in E1, E2. subst.
    destruct ol, orr; try discriminate; eauto.
  Qed.

  Lemma pt_refl s a c : proper c || trivial c = true -> holds s a a c.
  Proof.
    destruct H as (Hr & _).
    intro E. apply orb_prop in E as [E|E].
    - apply proper_inv in E as [->|[->|(f & v & [->| ->])]]; simpl; auto.
    - apply trivial_inv in E as (o & f & v & ->). simpl. auto.
  Qed.

  Lemma pt_sym s a b c : proper c || trivial c = true -> holds s a b c -> holds s b a c.
  Proof.
    destruct H as (Hr & Hs & _).
    intro E. apply orb_prop in E as [E|E].
    - apply proper_inv in E as [->|[->|(f & v & [->| ->])]]; simpl; auto.
    - apply trivial_inv in E as (o & f & v & ->). simpl. intros _. auto.
  Qed.

  Lemma pt_trans s a b c' c : proper c || trivial c = true ->
    holds s a b c -> holds s b c' c -> holds s a c' c.
  Proof.
    destruct H as (Hr & Hs & Ht & _).
    intro E. apply orb_prop in E as [E|E].
    - apply proper_inv in E as [->|[->|(f & v & [->| ->])]]; simpl.
      + intros; congruence.
      + intros; congruence.
      + intros; eapply Ht; eauto.
      + intros; eapply Ht; eauto.
    - apply trivial_inv in E as (o & f & v & ->). simpl. intros _ _. auto.
  Qed.

  Lemma equivalence_of_partial s : partial_ok s = true ->
    (forall a, eqP s a a) /\
    (forall a b, eqP s a b -> eqP s b a) /\
    (forall a b c, eqP s a b -> eqP s b c -> eqP s a c).
  Proof.
    unfold partial_ok, eqP. intro P. rewrite forallb_forall in P.
    repeat split; intros.
    - apply Forall_forall. intros c Hc. apply pt_refl; auto.
    - rewrite Forall_forall in *. intros c Hc. apply pt_sym; auto.
    - rewrite Forall_forall in *. intros x Hx. eapply pt_trans; eauto.
  Qed.

  Lemma covered_tok s a b t : eqP s a b -> covered s t = true -> tokval a t = tokval b t.
  Proof.
    destruct H as (_ & Hs & _ & Hf).
    unfold eqP, covered. intros E C. rewrite Forall_forall in E.
    apply existsb_exists in C as (c & Hc & Cv).
    specialize (E c Hc).
    destruct t as [f k|]; destruct c as [ol fl vl orr fr vr| |]; simpl in Cv; try discriminate.
    destruct ol, orr; try discriminate;
    apply andb_prop in Cv as [Cv F]; apply andb_prop in Cv as [Cv E3];
    apply andb_prop in Cv as [E1 E2]; apply Nat.eqb_eq in E1, E2, E3; subst;
    simpl in *; eapply Hf; eauto.
  Qed.

  Theorem partial_sound s : partial_ok s = true -> partially_consistent s.
  Proof.
    intro P. destruct (equivalence_of_partial s P) as (A & B & C).
    repeat split; auto. intros. eapply covered_tok; eauto.
  Qed.

  Lemma proper_partial s : forallb proper (eqs s) = true -> partial_ok s = true.
  Proof.
    unfold partial_ok. rewrite !forallb_forall. intros P c Hc. rewrite (P c Hc). reflexivity.
  Qed.

  Lemma map_tok_eq s a b l : eqP s a b -> forallb (covered s) l = true ->
    map (tokval a) l = map (tokval b) l.
  Proof.
    intros E C. rewrite forallb_forall in C. apply map_ext_in. intros t Ht.
    eapply covered_tok; eauto.
  Qed.

  Lemma has_conj s a b (p : conj -> bool) : eqP s a b -> existsb p (eqs s) = true ->
    exists c, p c = true /\ holds s a b c.
  Proof.
    unfold eqP. intros E X. rewrite Forall_forall in E. apply existsb_exists in X as (c & Hc & Pc).
    eauto.
  Qed.

  (* MAIN THEOREM: for all specs, all interpretations of values, all objects. *)
  Theorem wf_consistent s : wf_spec s = true -> consistent s.
  Proof.
    unfold wf_spec. intro W. apply andb_prop in W as [W W3]. apply andb_prop in W as [W1 W2].
    destruct (equivalence_of_partial s (proper_partial s W1)) as (A & B & C).
    repeat split; auto.
    - (* repr *)
      rename H0 into E.
      apply orb_prop in W2 as [X|X].
      + destruct (has_conj s a b _ E X) as (c & Pc & Hc). destruct c; try discriminate. exact Hc.
      + unfold reprdata. eapply map_tok_eq; eauto.
    - (* hash *)
      rename H0 into E.
      assert (Rp : reprdata s a = reprdata s b).
      { apply orb_prop in W2 as [X|X].
        + destruct (has_conj s a b _ E X) as (c & Pc & Hc). destruct c; try discriminate. exact Hc.
        + unfold reprdata. eapply map_tok_eq; eauto. }
      pose proof E as E'.
      unfold hashdata in *. destruct (hsh s) eqn:Hh; auto.
      apply orb_prop in W3 as [X|X].
      + destruct (has_conj s a b _ E X) as (c & Pc & Hc). destruct c; try discriminate.
        simpl in Hc. unfold hashdata in Hc. rewrite Hh in Hc. exact Hc.
      + eapply map_tok_eq; eauto.
  Qed.
End Generic.

(* ------------------------------------------------------------------------------------------- *)
(* Statements used by the generated per-class files (closed: quantified over every interpretation) *)

Definition consistent_statement (s : spec) : Prop :=
  forall (O V R : Type) fld oid veq vw rend,
    @hyps V R veq vw rend -> @consistent O V R fld oid veq vw rend s.

Definition partial_statement (s : spec) : Prop :=
  forall (O V R : Type) fld oid veq vw rend,
    @hyps V R veq vw rend -> @partially_consistent O V R fld oid veq vw rend s.

Theorem C13_class_consistent : forall s, wf_spec s = true -> consistent_statement s.
Proof. intros s W O V R fld oid veq vw rend Hy. eapply wf_consistent; eauto. Qed.

Theorem C13_class_partial : forall s, partial_ok s = true -> partial_statement s.
Proof. intros s W O V R fld oid veq vw rend Hy. eapply partial_sound; eauto. Qed.

(* ------------------------------------------------------------------------------------------- *)
(* Counter-model for refutations: a value is (==-class, presentation); == looks at the class only;
   faithful renderings show the class only, unfaithful ones also the presentation; the identity-like
   views (1, 2) are injective, unknown views forget everything.  The model satisfies [hyps]. *)

Definition MV := (nat * nat)%type.
Definition m_veq (x y : MV) : bool := fst x =? fst y.
Definition m_vw (v : nat) (x : MV) : MV :=
  match v with
  | 0 => x
  | 1 | 2 => (fst x + (fst x + snd x) * (fst x + snd x + 1), 0)   (* injective on pairs: x + (x+y)(x+y+1) *)
  | _ => (0, 0)
  end.
Definition m_rend (k : nat) (x : MV) : MV := if kind_faithful k then (fst x, 0) else x.
Definition MO := (nat * (nat -> MV))%type.     (* (identity, attributes) *)
Definition m_fld (o : MO) f := snd o f.
Definition m_oid (o : MO) : MV := (fst o, 0).

Lemma pair_code_inj a b c d :
  a + (a + b) * (a + b + 1) = c + (c + d) * (c + d + 1) -> a = c /\ b = d.
Proof.
  intro E.
  assert (S : a + b = c + d).
  { destruct (Nat.lt_trichotomy (a + b) (c + d)) as [L|[L|L]]; auto; exfalso.
    - assert ((a + b + 1) * (a + b + 1) <= (c + d) * (c + d)) by (apply Nat.mul_le_mono; lia). nia.
    - assert ((c + d + 1) * (c + d + 1) <= (a + b) * (a + b)) by (apply Nat.mul_le_mono; lia). nia. }
  rewrite S in E. split; lia.
Qed.

Theorem model_hyps : @hyps MV MV m_veq m_vw m_rend.
Proof.
  unfold hyps, m_veq. repeat split.
  - intros. apply Nat.eqb_refl.
  - intros x y E. apply Nat.eqb_eq in E. apply Nat.eqb_eq. auto.
  - intros x y z E1 E2. apply Nat.eqb_eq in E1, E2. apply Nat.eqb_eq. congruence.
  - intros v k F [x p] [y q] E. apply Nat.eqb_eq in E. unfold m_rend.
    destruct v as [|[|[|v]]]; simpl in *.
    + rewrite F. simpl. congruence.
    + apply pair_code_inj in E as [-> ->]. reflexivity.
    + apply pair_code_inj in E as [-> ->]. reflexivity.
    + discriminate.
Qed.

Definition refuted_statement (s : spec) : Prop :=
  exists a b : MO,
    @eqP MO MV MV m_fld m_oid m_veq m_vw m_rend s a b /\
    (@reprdata MO MV MV m_fld m_oid m_rend s a <> @reprdata MO MV MV m_fld m_oid m_rend s b \/
     @hashdata MO MV MV m_fld m_oid m_rend s a <> @hashdata MO MV MV m_fld m_oid m_rend s b).

(* a refuted spec is not consistent: the two statements exclude each other *)
Theorem refuted_not_consistent s : refuted_statement s -> ~ consistent_statement s.
Proof.
  intros (a & b & E & D) C.
  destruct (C MO MV MV m_fld m_oid m_veq m_vw m_rend model_hyps) as (_ & _ & _ & X).
  destruct (X a b E) as [X1 X2]. destruct D; contradiction.
Qed.

(* ------------------------------------------------------------------------------------------- *)
(* Why rendering kind 5 (repr of a plain dict) is not faithful: Python dict equality ignores the
   insertion order, repr follows it. *)

Definition pdict := list (nat * nat).
Definition dget (d : pdict) (k : nat) : option nat :=
  option_map snd (find (fun kv => fst kv =? k) d).
Definition dsub (d e : pdict) : bool :=
  forallb (fun kv => match dget e (fst kv) with Some v => v =? snd kv | None => false end) d.
Definition dict_eqb (d e : pdict) : bool := (length d =? length e) && dsub d e && dsub e d.
Definition dict_repr (d : pdict) : list (nat * nat) := d.     (* repr lists items in insertion order *)

Theorem C13_dict_eq_repr_refuted :
  exists d e, dict_eqb d e = true /\ dict_repr d <> dict_repr e.
Proof. exists [(0, 1); (1, 2)], [(1, 2); (0, 1)]. split; [reflexivity | discriminate]. Qed.

Theorem C13_dict_eq_repr_partial :
  forall d e, d = e -> dict_repr d = dict_repr e.
Proof. intros; subst; reflexivity. Qed.

Print Assumptions C13_class_consistent.
Print Assumptions C13_class_partial.
Print Assumptions model_hyps.
Print Assumptions refuted_not_consistent.
Print Assumptions C13_dict_eq_repr_refuted.

(* ------------------------------------------------------------------------------------------- *)
(* Round trip through __getnewargs__ (pickle protocol 2: cls.__new__(cls, *newargs), and eval(repr)
   for classes whose repr prints exactly the constructor arguments): if the rebuilt object agrees with
   the original on every attribute listed in __getnewargs__, and every attribute that repr / == reads
   is listed there, then the rebuilt object has the same repr data and is == to the original. *)
Definition tok_in_newargs (newargs : list nat) (t : tok) : bool :=
  match t with TF f _ => existsb (Nat.eqb f) newargs | TSelfId => false end.

Definition conj_in_newargs (newargs : list nat) (c : conj) : bool :=
  match c with
  | Cmp _ fl _ _ fr _ => existsb (Nat.eqb fl) newargs && existsb (Nat.eqb fr) newargs
  | CRepr | CHash => true
  end.

Definition newargs_cover (s : spec) (newargs : list nat) : bool :=
  forallb (tok_in_newargs newargs) (rep s) && forallb (conj_in_newargs newargs) (eqs s)
  && match hsh s with HOfRepr => true | HToks l => forallb (tok_in_newargs newargs) l end.

Section RoundTrip.
  Variables (O V R : Type).
  Variable fld : O -> nat -> V.
  Variable oid : O -> R.
  Variable veq : V -> V -> bool.
  Variable vw : nat -> V -> V.
  Variable rend : nat -> V -> R.
  Hypothesis veq_refl : forall x, veq x x = true.

  Lemma in_newargs f l : existsb (Nat.eqb f) l = true -> In f l.
  Proof. intro E. apply existsb_exists in E as (x & I & E). apply Nat.eqb_eq in E. subst. exact I. Qed.

  Theorem C13_roundtrip_newargs : forall s newargs a b,
    newargs_cover s newargs = true ->
    forallb proper (eqs s) = true ->
    (forall f, In f newargs -> fld b f = fld a f) ->
    @reprdata O V R fld oid rend s b = @reprdata O V R fld oid rend s a /\
    @hashdata O V R fld oid rend s b = @hashdata O V R fld oid rend s a /\
    @eqP O V R fld oid veq vw rend s a b.
  Proof.
    intros s newargs a b Cv Pr Ag. unfold newargs_cover in Cv.
    apply andb_prop in Cv as [Cv C3]. apply andb_prop in Cv as [C1 C2].
    assert (Tk : forall l, forallb (tok_in_newargs newargs) l = true ->
                 map (@tokval O V R fld oid rend b) l = map (@tokval O V R fld oid rend a) l).
    { intros l F. rewrite forallb_forall in F. apply map_ext_in. intros t I. specialize (F t I).
      destruct t as [f k|]; simpl in *; [|discriminate]. rewrite (Ag f (in_newargs f newargs F)). reflexivity. }
    assert (Rp : @reprdata O V R fld oid rend s b = @reprdata O V R fld oid rend s a) by (apply Tk; auto).
    assert (Hs : @hashdata O V R fld oid rend s b = @hashdata O V R fld oid rend s a).
    { unfold hashdata. destruct (hsh s); auto. }
    repeat split; auto.
    unfold eqP. apply Forall_forall. intros c I.
    rewrite forallb_forall in C2, Pr. specialize (C2 c I). specialize (Pr c I).
    destruct c as [ol fl vl orr fr vr| |]; simpl in *; auto.
    apply andb_prop in C2 as [A1 A2].
    pose proof (Ag fl (in_newargs fl newargs A1)) as E1. pose proof (Ag fr (in_newargs fr newargs A2)) as E2.
    destruct ol, orr; try discriminate; apply andb_prop in Pr as [P1 P2]; apply Nat.eqb_eq in P1, P2; subst;
      simpl; rewrite ?E1, ?E2; apply veq_refl.
  Qed.
End RoundTrip.

Print Assumptions C13_roundtrip_newargs.

(* ------------------------------------------------------------------------------------------- *)
(* repr as a constructor call: what repr prints are the attributes it reads *)
Definition rep_fields (s : spec) : list nat :=
  flat_map (fun t => match t with TF f _ => [f] | TSelfId => [] end) (rep s).

(* Rendering kind 7: a dict printed with its keys in sorted order IS a function of the ==-class of the
   dict.  (Python: {k: d[k] for k in sorted(d)}; model: insertion sort by key of the item list.) *)
Section DictCanonical.
  Fixpoint dins (kv : nat * nat) (l : pdict) : pdict :=
    match l with
    | [] => [kv]
    | x :: t => if fst kv <=? fst x then kv :: l else x :: dins kv t
    end.
  Fixpoint dsort (d : pdict) : pdict := match d with [] => [] | x :: t => dins x (dsort t) end.
  Definition dict_repr_canonical (d : pdict) : list (nat * nat) := dsort d.

  Definition klt (a b : nat * nat) : Prop := fst a < fst b.

  Lemma dins_in kv l x : In x (dins kv l) <-> x = kv \/ In x l.
  Proof.
    induction l as [|y t IH]; simpl.
    - intuition.
    - destruct (fst kv <=? fst y); simpl; [intuition|]. rewrite IH. intuition.
  Qed.

  Lemma dsort_in d x : In x (dsort d) <-> In x d.
  Proof. induction d as [|y t IH]; simpl; [tauto|]. rewrite dins_in, IH. intuition. Qed.

  Lemma dins_sorted kv l : StronglySorted klt l -> ~ In (fst kv) (map fst l) -> StronglySorted klt (dins kv l).
  Proof.
    induction 1 as [|y t S IH F]; simpl; intro N.
    - constructor; constructor.
    - destruct (fst kv <=? fst y) eqn:E.
      + apply Nat.leb_le in E. assert (L : fst kv < fst y) by (destruct (Nat.eq_dec (fst kv) (fst y)); [exfalso; apply N; left; auto|lia]).
        constructor; [constructor; auto|]. constructor; auto.
        rewrite Forall_forall in *. intros z I. specialize (F z I). unfold klt in *. lia.
      + apply Nat.leb_gt in E. constructor; [apply IH; intro I; apply N; right; exact I|].
        rewrite Forall_forall in *. intros z I. apply dins_in in I as [->|I]; [exact E | auto].
  Qed.

  Lemma dsort_sorted d : NoDup (map fst d) -> StronglySorted klt (dsort d).
  Proof.
    induction d as [|y t IH]; simpl; intro N; [constructor|]. inversion N as [|? ? Ny Nt]; subst.
    apply dins_sorted.
    - apply IH; exact Nt.
    - intro I. apply Ny. apply in_map_iff in I as (z & E & I).
      apply (proj1 (dsort_in _ _)) in I. apply in_map_iff. exists z. split; [exact E | exact I].
  Qed.

  Lemma sorted_unique : forall l1 l2, StronglySorted klt l1 -> StronglySorted klt l2 ->
    (forall x, In x l1 <-> In x l2) -> l1 = l2.
  Proof.
    induction l1 as [|a t1 IH]; intros [|b t2] S1 S2 E.
    - reflexivity.
    - exfalso. apply (proj2 (E b)). left; auto.
    - exfalso. apply (proj1 (E a)). left; auto.
    - inversion S1 as [|? ? S1' F1]; inversion S2 as [|? ? S2' F2]; subst.
      rewrite Forall_forall in F1, F2.
      assert (a = b).
      { destruct (proj1 (E a) (or_introl eq_refl)) as [->|Ia]; auto.
        destruct (proj2 (E b) (or_introl eq_refl)) as [->|Ib]; auto.
        specialize (F1 b Ib). specialize (F2 a Ia). unfold klt in *. lia. }
      subst b. f_equal. apply IH; auto. intro x. split; intro I.
      + destruct (proj1 (E x) (or_intror I)) as [->|]; auto. specialize (F1 x I). unfold klt in F1. lia.
      + destruct (proj2 (E x) (or_intror I)) as [->|]; auto. specialize (F2 x I). unfold klt in F2. lia.
  Qed.

  Lemma dget_in e k v : dget e k = Some v -> In (k, v) e.
  Proof.
    unfold dget. destruct (find _ e) as [[k' v']|] eqn:F; simpl; [|discriminate]. intro E. inversion E; subst.
    apply find_some in F as [I K]. simpl in K. apply Nat.eqb_eq in K. subst. exact I.
  Qed.

  Lemma dsub_in d e : dsub d e = true -> forall x, In x d -> In x e.
  Proof.
    unfold dsub. rewrite forallb_forall. intros F [k v] I. specialize (F _ I). simpl in F.
    destruct (dget e k) as [w|] eqn:G; [|discriminate]. apply Nat.eqb_eq in F. subst. apply dget_in; auto.
  Qed.

  (* equal dicts (Python ==) have the same canonical repr, whatever their insertion orders *)
  Theorem C13_dict_canonical_repr : forall d e, NoDup (map fst d) -> NoDup (map fst e) ->
    dict_eqb d e = true -> dict_repr_canonical d = dict_repr_canonical e.
  Proof.
    intros d e Nd Ne E. unfold dict_eqb in E. apply andb_prop in E as [E E2]. apply andb_prop in E as [_ E1].
    apply sorted_unique; try (apply dsort_sorted; auto).
    intro x. rewrite !dsort_in. split; eapply dsub_in; eauto.
  Qed.

  (* and the canonical repr still denotes an equal dict (eval(repr) round trip) *)
  Theorem C13_dict_canonical_same_items : forall d x, In x (dict_repr_canonical d) <-> In x d.
  Proof. intros; apply dsort_in. Qed.
End DictCanonical.

Print Assumptions C13_dict_canonical_repr.
