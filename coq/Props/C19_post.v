(* C19 - the four post-order traversals of ufl/corealg/traversal.py as one fuelled stack machine
   (parameters: operands reversed or not, `visited` set used or not, cut-off predicate on labels),
   a structural specification, the proof that the machine computes the specification for ALL trees
   within fuel 2*size+1, and the properties of the unique traversals. *)
Require Import List Arith Lia Bool.
Require Import UFLV.Props.C19_tree.
Import ListNotations.

Lemma NoDup_app_intro : forall (a b : list tree),
  NoDup a -> NoDup b -> (forall x, In x a -> ~ In x b) -> NoDup (a ++ b).
Proof.
  induction a; simpl; intros; auto.
  inversion H; subst. constructor.
  - rewrite in_app_iff. intros [Hi|Hi]; [contradiction|]. apply (H1 a); auto.
  - apply IHa; auto.
Qed.

Lemma list_sum_rev : forall l, list_sum (rev l) = list_sum l.
Proof. induction l; simpl; auto. rewrite list_sum_app. simpl. lia. Qed.

Section Post.
Variable rev_ops : bool.          (* deps = list(reversed(ufl_operands)) or list(ufl_operands) *)
Variable uniq : bool.             (* `dep not in visited` tested or not *)
Variable cut : nat -> bool.       (* cutofftypes[expr._ufl_typecode_] *)

Definition dlist (t : tree) : list tree := if rev_ops then rev (ops t) else ops t.
Definition deps_of (t : tree) : list (option tree) := map Some (dlist t).
Definition seen (vis : list tree) (d : tree) : bool := uniq && mem d vis.

(* `for i, dep in enumerate(deps): if dep is not None [and dep not in visited]: ... deps[i] = None; break` *)
Fixpoint scan (vis : list tree) (deps : list (option tree)) : option (tree * list (option tree)) :=
  match deps with
  | [] => None
  | None :: r => match scan vis r with Some (d, r') => Some (d, None :: r') | None => None end
  | Some d :: r =>
      if seen vis d
      then match scan vis r with Some (d', r') => Some (d', Some d :: r') | None => None end
      else Some (d, None :: r)
  end.

Record st := mk { lifo : list (tree * list (option tree)); vis : list tree; out : list tree }.

(* one iteration of `while lifo:`; `out` is kept reversed (latest first) *)
Definition step (s : st) : option st :=
  match lifo s with
  | [] => None
  | (e, deps) :: rest =>
      if cut (label e) then Some (mk rest (e :: vis s) (e :: out s))
      else match scan (vis s) deps with
           | Some (d, deps') => Some (mk ((d, deps_of d) :: (e, deps') :: rest) (vis s) (out s))
           | None => Some (mk rest (e :: vis s) (e :: out s))
           end
  end.

Fixpoint run (fuel : nat) (s : st) : option (list tree * list tree) :=
  match fuel with
  | 0 => None
  | S f => match step s with
           | None => Some (rev (out s), vis s)
           | Some s' => run f s'
           end
  end.

(* ---------------- structural specification ---------------- *)
Fixpoint specl (f : tree -> list tree -> list tree * list tree) (ds : list tree) (vis : list tree)
  : list tree * list tree :=
  match ds with
  | [] => ([], vis)
  | d :: r => if seen vis d then specl f r vis
              else let (o1, v1) := f d vis in
                   let (o2, v2) := specl f r v1 in (o1 ++ o2, v2)
  end.

Fixpoint specf (h : nat) (t : tree) (vis : list tree) : list tree * list tree :=
  match h with
  | 0 => ([], vis)
  | S h' => if cut (label t) then ([t], t :: vis)
            else let (o, v) := specl (specf h') (dlist t) vis in (o ++ [t], t :: v)
  end.

Lemma In_dlist : forall c t, In c (dlist t) <-> In c (ops t).
Proof. intros. unfold dlist. destruct rev_ops; [symmetry; apply in_rev | tauto]. Qed.

Lemma dlist_size : forall c t h, In c (dlist t) -> size t <= S h -> size c <= h.
Proof. intros. apply In_dlist in H. apply size_child in H. lia. Qed.

Lemma specl_vis : forall f,
  (forall d vis, snd (f d vis) = rev (fst (f d vis)) ++ vis) ->
  forall ds vis, snd (specl f ds vis) = rev (fst (specl f ds vis)) ++ vis.
Proof.
  intros f Hf. induction ds as [|d r IH]; intros vis0; simpl; auto.
  destruct (seen vis0 d); auto.
  specialize (Hf d vis0). destruct (f d vis0) as [o1 v1]. simpl in Hf.
  specialize (IH v1). destruct (specl f r v1) as [o2 v2]. simpl in *.
  subst. rewrite rev_app_distr, app_assoc. reflexivity.
Qed.

Lemma specf_vis : forall h t vis, snd (specf h t vis) = rev (fst (specf h t vis)) ++ vis.
Proof.
  induction h; intros; simpl; auto.
  destruct (cut (label t)); simpl; auto.
  pose proof (specl_vis (specf h) IHh (dlist t) vis0) as H.
  destruct (specl (specf h) (dlist t) vis0) as [o v]. simpl in *. subst.
  rewrite rev_app_distr. reflexivity.
Qed.

(* ---------------- the machine computes the specification ---------------- *)
Definition dead (vis : list tree) (o : option tree) : Prop :=
  match o with None => True | Some d => seen vis d = true end.

Lemma seen_mono : forall l vis d, seen vis d = true -> seen (l ++ vis) d = true.
Proof.
  unfold seen. intros l vis0 d H. destruct uniq; simpl in *; [|discriminate].
  apply mem_In. apply mem_In in H. apply in_or_app; auto.
Qed.

Lemma dead_mono : forall l vis pre, Forall (dead vis) pre -> Forall (dead (l ++ vis)) pre.
Proof.
  intros l vis0 pre H. eapply Forall_impl; [|exact H]. intros [d|]; simpl; auto. apply seen_mono.
Qed.

Lemma scan_dead : forall vis pre r, Forall (dead vis) pre ->
  scan vis (pre ++ r) = match scan vis r with Some (d, r') => Some (d, pre ++ r') | None => None end.
Proof.
  intros vis0 pre r H. induction H as [|x pre Hx H IH]; simpl.
  - destruct (scan vis0 r) as [[d r']|]; reflexivity.
  - destruct x as [d|]; simpl in Hx.
    + rewrite Hx, IH. destruct (scan vis0 r) as [[d' r']|]; reflexivity.
    + rewrite IH. destruct (scan vis0 r) as [[d' r']|]; reflexivity.
Qed.

Definition node_ok (h : nat) (d : tree) : Prop :=
  forall rest vis0 out0,
  exists k, k + 1 <= 2 * length (fst (specf h d vis0)) /\
    forall fuel, run (k + fuel) (mk ((d, deps_of d) :: rest) vis0 out0)
               = run fuel (mk rest (snd (specf h d vis0)) (rev (fst (specf h d vis0)) ++ out0)).

Definition list_ok (f : tree -> list tree -> list tree * list tree) (e : tree) (ds : list tree) : Prop :=
  forall pre rest vis0 out0, cut (label e) = false -> Forall (dead vis0) pre ->
  exists k, k <= 2 * length (fst (specl f ds vis0)) + 1 /\
    forall fuel, run (k + fuel) (mk ((e, pre ++ map Some ds) :: rest) vis0 out0)
               = run fuel (mk rest (e :: snd (specl f ds vis0)) (e :: rev (fst (specl f ds vis0)) ++ out0)).

Lemma list_from_node : forall h, (forall d, size d <= h -> node_ok h d) ->
  forall e ds, (forall d, In d ds -> size d <= h) -> list_ok (specf h) e ds.
Proof.
  intros h Hn e. induction ds as [|d r IH]; intros Hsz pre rest vis0 out0 Hcut Hdead.
  - exists 1. simpl. split; [lia|]. intros fuel. unfold step. simpl.
    rewrite Hcut, (scan_dead vis0 pre [] Hdead). simpl. reflexivity.
  - simpl specl. destruct (seen vis0 d) eqn:Hs.
    + assert (Hd : Forall (dead vis0) (pre ++ [Some d])).
      { apply Forall_app; split; auto. }
      destruct (IH (fun x Hx => Hsz x (or_intror Hx)) (pre ++ [Some d]) rest vis0 out0 Hcut Hd) as (k & Hk & Hrun).
      exists k. split; auto. intros fuel. rewrite <- Hrun. rewrite <- app_assoc. reflexivity.
    + destruct (Hn d (Hsz d (or_introl eq_refl)) ((e, pre ++ None :: map Some r) :: rest) vis0 out0)
        as (k1 & Hk1 & Hrun1).
      pose proof (specf_vis h d vis0) as Hv1.
      destruct (specf h d vis0) as [o1 v1]. simpl in Hk1, Hrun1, Hv1.
      assert (Hd : Forall (dead v1) (pre ++ [None])).
      { apply Forall_app; split; [|repeat constructor]. subst v1. apply dead_mono; auto. }
      destruct (IH (fun x Hx => Hsz x (or_intror Hx)) (pre ++ [None]) rest v1 (rev o1 ++ out0) Hcut Hd)
        as (k2 & Hk2 & Hrun2).
      destruct (specl (specf h) r v1) as [o2 v2]. simpl in Hk2, Hrun2. simpl fst. simpl snd.
      exists (S (k1 + k2)). split.
      { rewrite app_length. lia. }
      intros fuel. simpl plus. simpl run. unfold step at 1. simpl lifo. cbv iota beta.
      rewrite Hcut. simpl vis.
      rewrite (scan_dead vis0 pre (Some d :: map Some r) Hdead). simpl scan. rewrite Hs.
      simpl out.
      replace (k1 + k2 + fuel) with (k1 + (k2 + fuel)) by lia.
      rewrite Hrun1.
      replace (pre ++ None :: map Some r) with ((pre ++ [None]) ++ map Some r)
        by (rewrite <- app_assoc; reflexivity).
      rewrite Hrun2. rewrite rev_app_distr, app_assoc. reflexivity.
Qed.

Lemma node_ok_all : forall h d, size d <= h -> node_ok h d.
Proof.
  induction h; intros d Hsz.
  - pose proof (size_pos d). lia.
  - intros rest vis0 out0. simpl specf. destruct (cut (label d)) eqn:Hcut.
    + exists 1. simpl. split; [lia|]. intros fuel. unfold step. simpl. rewrite Hcut. reflexivity.
    + assert (Hl : list_ok (specf h) d (dlist d)).
      { apply list_from_node; auto. intros c Hc. eapply dlist_size; eauto. }
      destruct (Hl [] rest vis0 out0 Hcut (Forall_nil _)) as (k & Hk & Hrun).
      destruct (specl (specf h) (dlist d) vis0) as [o v]. simpl in *.
      exists k. split; [rewrite app_length; simpl; lia|].
      intros fuel. unfold deps_of. rewrite Hrun. rewrite rev_app_distr. reflexivity.
Qed.

Lemma specl_len : forall f, (forall d vis, length (fst (f d vis)) <= size d) ->
  forall ds vis, length (fst (specl f ds vis)) <= list_sum (map size ds).
Proof.
  intros f Hf. induction ds as [|d r IH]; intros vis0; simpl; auto.
  destruct (seen vis0 d).
  - specialize (IH vis0). lia.
  - specialize (Hf d vis0). destruct (f d vis0) as [o1 v1]. specialize (IH v1).
    destruct (specl f r v1) as [o2 v2]. simpl in *. rewrite app_length. lia.
Qed.

Lemma specf_len : forall h t vis, length (fst (specf h t vis)) <= size t.
Proof.
  induction h; intros; simpl; [lia|].
  destruct (cut (label t)); simpl; [pose proof (size_pos t); lia|].
  pose proof (specl_len (specf h) IHh (dlist t) vis0) as H.
  destruct (specl (specf h) (dlist t) vis0) as [o v]. simpl in *.
  rewrite app_length. simpl.
  assert (list_sum (map size (dlist t)) = list_sum (map size (ops t))).
  { unfold dlist. destruct rev_ops; auto. rewrite map_rev. apply list_sum_rev. }
  destruct t; simpl in *. lia.
Qed.

(* The fuel 2*size+1 never runs out, and the result is the structural specification. *)
Theorem run_spec : forall t vis0 fuel, 2 * size t + 1 <= fuel ->
  run fuel (mk [(t, deps_of t)] vis0 []) = Some (specf (size t) t vis0).
Proof.
  intros t vis0 fuel Hf.
  destruct (node_ok_all (size t) t (le_n _) [] vis0 []) as (k & Hk & Hrun).
  pose proof (specf_len (size t) t vis0).
  replace fuel with (k + S (fuel - k - 1)) by lia.
  rewrite Hrun. simpl. rewrite app_nil_r, rev_involutive.
  destruct (specf (size t) t vis0); reflexivity.
Qed.

(* ---------------- plain (non-unique) traversals: closed form ---------------- *)
Fixpoint post_rec (t : tree) : list tree :=
  match t with
  | Node l cs => (if cut l then []
                  else concat (let m := map post_rec cs in if rev_ops then rev m else m)) ++ [t]
  end.

Lemma flat_post_dlist : forall t,
  flat_map post_rec (dlist t) = concat (let m := map post_rec (ops t) in if rev_ops then rev m else m).
Proof.
  intros. unfold dlist. destruct rev_ops; simpl.
  - symmetry. apply concat_rev_map.
  - apply flat_map_concat_map.
Qed.

Lemma post_rec_unfold : forall t,
  post_rec t = (if cut (label t) then [] else flat_map post_rec (dlist t)) ++ [t].
Proof. intros. rewrite flat_post_dlist. destruct t; reflexivity. Qed.

Lemma specf_plain : uniq = false -> forall h t vis, size t <= h -> fst (specf h t vis) = post_rec t.
Proof.
  intros Hu. induction h; intros t vis0 Hsz.
  - pose proof (size_pos t); lia.
  - simpl specf. rewrite post_rec_unfold. destruct (cut (label t)); [reflexivity|].
    assert (Hl : forall ds v, (forall d, In d ds -> size d <= h) ->
                 fst (specl (specf h) ds v) = flat_map post_rec ds).
    { induction ds as [|d r IHr]; intros v Hd; simpl; auto.
      unfold seen. rewrite Hu. simpl.
      pose proof (IHh d v (Hd d (or_introl eq_refl))) as H1.
      destruct (specf h d v) as [o1 v1]. simpl in H1.
      specialize (IHr v1 (fun x Hx => Hd x (or_intror Hx))).
      destruct (specl (specf h) r v1) as [o2 v2]. simpl in *. congruence. }
    specialize (Hl (dlist t) vis0 (fun c Hc => dlist_size c _ h Hc Hsz)).
    destruct (specl (specf h) (dlist t) vis0) as [o v]. simpl in *. congruence.
Qed.

(* ---------------- unique traversals ---------------- *)
(* nodes reachable from t without passing through a cut-off node *)
Fixpoint creach (t : tree) : list tree :=
  match t with Node l cs => t :: (if cut l then [] else concat (map creach cs)) end.

Lemma creach_self : forall t, In t (creach t).
Proof. destruct t; simpl; auto. Qed.

Lemma creach_child : forall x c t, cut (label t) = false -> In c (ops t) -> In x (creach c) -> In x (creach t).
Proof.
  intros x c [l cs] Hcut Hc Hx. simpl in *. rewrite Hcut. right. apply in_concat_map. eauto.
Qed.

Lemma creach_inv : forall x t, In x (creach t) ->
  x = t \/ (cut (label t) = false /\ exists c, In c (ops t) /\ In x (creach c)).
Proof.
  intros x [l cs]. simpl. intros [<-|H]; auto. right.
  destruct (cut l); [contradiction|]. split; auto. apply in_concat_map in H. exact H.
Qed.

Lemma creach_sub : forall t x, In x (creach t) -> In x (subterms t).
Proof.
  induction t using tree_ind2. intros x Hx. apply creach_inv in Hx.
  destruct Hx as [->|(_ & c & Hc & Hx)]; [apply subterms_self|].
  rewrite Forall_forall in H. eapply subterms_child; eauto.
Qed.

Lemma creach_nocut : (forall l, cut l = false) -> forall t, creach t = subterms t.
Proof.
  intros Hc. induction t using tree_ind2. simpl. rewrite Hc. f_equal. f_equal.
  apply map_ext_in. rewrite Forall_forall in H. exact H.
Qed.

Definition closedn (n : nat) (vis : list tree) : Prop :=
  forall x, In x vis -> size x < n -> cut (label x) = false -> forall c, In c (ops x) -> In c vis.

(* when x is yielded, all its operands are already in the visited set *)
Fixpoint ordered (vis : list tree) (o : list tree) : Prop :=
  match o with
  | [] => True
  | x :: r => (cut (label x) = false -> forall c, In c (ops x) -> In c vis) /\ ordered (x :: vis) r
  end.

Lemma ordered_incl : forall o v v', ordered v o -> (forall x, In x v -> In x v') -> ordered v' o.
Proof.
  induction o; simpl; intros; auto. destruct H as [H1 H2]. split.
  - intros Hc c Hin. auto.
  - eapply IHo; eauto. simpl. intros x [->|Hx]; auto.
Qed.

Lemma ordered_app : forall a b v, ordered v (a ++ b) <-> ordered v a /\ ordered (rev a ++ v) b.
Proof.
  induction a; simpl; intros; [tauto|].
  rewrite IHa. rewrite <- app_assoc. simpl. tauto.
Qed.

Lemma closedn_creach : forall n v, closedn n v ->
  forall t, size t < n -> In t v -> forall x, In x (creach t) -> In x v.
Proof.
  intros n v Hcl. induction t using tree_ind2. intros Hsz Ht x Hx.
  apply creach_inv in Hx. destruct Hx as [->|(Hcut & c & Hc & Hx)]; auto.
  rewrite Forall_forall in H. apply (H c Hc); auto.
  - pose proof (size_child c _ Hc). lia.
  - eapply Hcl; eauto.
Qed.

Section Unique.
Hypothesis Huniq : uniq = true.
Variable n : nat.

Lemma seen_true : forall vis d, seen vis d = true <-> In d vis.
Proof. intros. unfold seen. rewrite Huniq. simpl. apply mem_In. Qed.
Lemma seen_false : forall vis d, seen vis d = false <-> ~ In d vis.
Proof. intros. unfold seen. rewrite Huniq. simpl. apply mem_nIn. Qed.

Definition P_list (ds : list tree) (vis0 : list tree) (r : list tree * list tree) : Prop :=
  let (o, v) := r in
  v = rev o ++ vis0 /\
  (forall x, In x o -> exists d, In d ds /\ In x (creach d)) /\
  NoDup o /\ (forall x, In x o -> ~ In x vis0) /\
  (forall c, In c ds -> In c v) /\
  (closedn n vis0 -> closedn n v) /\
  ordered vis0 o.

Definition P_node (t : tree) (vis0 : list tree) (r : list tree * list tree) : Prop :=
  let (o, v) := r in
  v = rev o ++ vis0 /\
  (exists o', o = o' ++ [t] /\ forall x, In x o' -> In x (creach t) /\ size x < size t /\ ~ In x vis0) /\
  NoDup o /\
  (closedn n vis0 -> closedn n v) /\
  ordered vis0 o.

Lemma P_list_from_node : forall f ds,
  (forall d vis0, In d ds -> P_node d vis0 (f d vis0)) ->
  forall vis0, P_list ds vis0 (specl f ds vis0).
Proof.
  intros f. induction ds as [|d r IH]; intros Hn vis0.
  - simpl. repeat split; simpl; auto; try tauto. constructor.
  - simpl specl. destruct (seen vis0 d) eqn:Hs.
    + specialize (IH (fun x v Hx => Hn x v (or_intror Hx)) vis0).
      unfold P_list in *. destruct (specl f r vis0) as [o v].
      destruct IH as (Ha & Hb & Hc & Hc' & Hd & He & Hf).
      repeat split; auto.
      * intros x Hx. destruct (Hb x Hx) as (d' & Hd' & Hx'). exists d'. simpl; auto.
      * intros c [<-|Hc0]; auto. subst v. apply in_or_app. right. apply seen_true; auto.
    + pose proof (Hn d vis0 (or_introl eq_refl)) as Hd0.
      unfold P_node in Hd0. destruct (f d vis0) as [o1 v1].
      destruct Hd0 as (Ha1 & (o' & Ho' & Hb1) & Hc1 & He1 & Hf1).
      specialize (IH (fun x v Hx => Hn x v (or_intror Hx)) v1).
      unfold P_list in *. destruct (specl f r v1) as [o2 v2].
      destruct IH as (Ha & Hb & Hc & Hc' & Hd & He & Hf).
      apply seen_false in Hs.
      assert (Ho1vis : forall x, In x o1 -> ~ In x vis0).
      { intros x Hx. subst o1. apply in_app_or in Hx. destruct Hx as [Hx|[<-|[]]]; auto.
        apply Hb1; auto. }
      repeat split.
      * rewrite Ha, Ha1, (rev_app_distr o1 o2), app_assoc. reflexivity.
      * intros x Hx. apply in_app_or in Hx. destruct Hx as [Hx|Hx].
        -- exists d. split; [simpl; auto|]. subst o1. apply in_app_or in Hx.
           destruct Hx as [Hx|[<-|[]]]; [apply Hb1; auto|apply creach_self].
        -- destruct (Hb x Hx) as (d' & Hd' & Hx'). exists d'. simpl; auto.
      * apply NoDup_app_intro; auto. intros x Hx1 Hx2. apply (Hc' x Hx2).
        subst v1. apply in_or_app. left. apply -> in_rev. exact Hx1.
      * intros x Hx. apply in_app_or in Hx. destruct Hx as [Hx|Hx]; auto.
        intros Hv. apply (Hc' x Hx). subst v1. apply in_or_app; auto.
      * intros c [<-|Hc0]; auto. subst v2 v1. apply in_or_app. right. apply in_or_app. left.
        apply -> in_rev. subst o1. apply in_or_app. right. simpl; auto.
      * auto.
      * apply ordered_app. split; auto. subst v1. exact Hf.
Qed.

Lemma P_node_all : forall h t vis0, size t <= h -> P_node t vis0 (specf h t vis0).
Proof.
  induction h; intros t vis0 Hsz.
  - pose proof (size_pos t). lia.
  - simpl specf. destruct (cut (label t)) eqn:Hcut.
    + unfold P_node. repeat split; simpl; auto.
      * exists []. split; auto. simpl. tauto.
      * repeat constructor. simpl. tauto.
      * intros Hcl x [<-|Hx] Hs Hc c Hin; [congruence|]. right. eapply Hcl; eauto.
      * congruence.
    + pose proof (P_list_from_node (specf h) (dlist t)
                    (fun d v Hd => IHh d v (dlist_size d t h Hd Hsz)) vis0) as Hl.
      unfold P_list in Hl. destruct (specl (specf h) (dlist t) vis0) as [o v].
      destruct Hl as (Ha & Hb & Hc & Hc' & Hd & He & Hf).
      assert (Hsmall : forall x, In x o -> In x (creach t) /\ size x < size t /\ ~ In x vis0).
      { intros x Hx. destruct (Hb x Hx) as (d & Hd0 & Hxd). apply In_dlist in Hd0.
        split; [eapply creach_child; eauto|]. split; auto.
        apply creach_sub, subterms_size in Hxd. pose proof (size_child d t Hd0). lia. }
      unfold P_node. repeat split.
      * subst v. rewrite rev_app_distr. reflexivity.
      * exists o. split; auto.
      * apply NoDup_app_intro; auto.
        -- repeat constructor. simpl; tauto.
        -- intros x Hx [<-|[]]. apply Hsmall in Hx. lia.
      * intros Hcl x [<-|Hx] Hs Hcx c Hin.
        -- right. apply Hd. apply In_dlist; auto.
        -- right. eapply (He Hcl); eauto.
      * apply ordered_app. split; auto. simpl. split; auto.
        intros _ c Hin. rewrite <- Ha. apply Hd. apply In_dlist; auto.
Qed.
End Unique.

(* Main properties of a unique traversal started with visited = [] or visited = [root]
   (unique_post_traversal adds the root before the loop). *)
Theorem unique_props : uniq = true -> forall t vis0, (vis0 = [] \/ vis0 = [t]) ->
  let o := fst (specf (size t) t vis0) in
  NoDup o /\
  (forall x, In x o <-> In x (creach t)) /\
  (forall o1 x o2, o = o1 ++ x :: o2 -> cut (label x) = false -> forall c, In c (ops x) -> In c o1) /\
  (exists o', o = o' ++ [t]).
Proof.
  intros Hu t vis0 Hv0. simpl.
  pose proof (P_node_all Hu (size t) (size t) t vis0 (le_n _)) as H.
  unfold P_node in H. destruct (specf (size t) t vis0) as [o v]. simpl.
  destruct H as (Ha & (o' & Ho' & Hb) & Hc & He & Hf).
  assert (Hin1 : forall x, In x o -> In x (creach t)).
  { intros x Hx. subst o. apply in_app_or in Hx. destruct Hx as [Hx|[<-|[]]];
      [apply Hb; auto|apply creach_self]. }
  assert (Hcl0 : closedn (size t) vis0).
  { destruct Hv0; subst vis0; intros x Hx Hs; simpl in Hx; [tauto|].
    destruct Hx as [<-|[]]. lia. }
  specialize (He Hcl0).
  assert (Hvis0 : forall x, In x vis0 -> x = t).
  { destruct Hv0; subst vis0; simpl; intros x Hx; [tauto|]. destruct Hx as [<-|[]]; auto. }
  split; [auto|]. split; [|split].
  - intros x. split; auto. intros Hx.
    assert (Hxv : In x v).
    { apply creach_inv in Hx. destruct Hx as [->|(Hcut & c & Hcin & Hx)].
      - subst v o. apply in_or_app. left. apply -> in_rev. apply in_or_app. right. simpl; auto.
      - apply (closedn_creach (size t) v He c); auto.
        + apply size_child; auto.
        + subst o. apply ordered_app in Hf. destruct Hf as [_ Hf]. simpl in Hf.
          destruct Hf as [Hf _]. subst v. rewrite rev_app_distr. simpl. right. apply Hf; auto. }
    subst v. apply in_app_or in Hxv. destruct Hxv as [Hxv|Hxv].
    + apply in_rev; auto.
    + apply Hvis0 in Hxv. subst x o. apply in_or_app. right. simpl; auto.
  - intros o1 x o2 Hsplit Hcut c Hcin. subst o. rewrite Hsplit in Hf.
    apply ordered_app in Hf. destruct Hf as [_ Hf]. simpl in Hf. destruct Hf as [Hf _].
    specialize (Hf Hcut c Hcin). apply in_app_or in Hf. destruct Hf as [Hf|Hf].
    + apply in_rev; auto.
    + apply Hvis0 in Hf. subst c. exfalso.
      assert (In x (creach t)). { apply Hin1. rewrite Hsplit. apply in_or_app. right. simpl; auto. }
      apply creach_sub, subterms_size in H. apply size_child in Hcin. lia.
  - eauto.
Qed.

End Post.
