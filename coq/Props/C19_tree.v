(* C19 - expression DAGs as trees with decidable structural equality.

   A UFL expression is hashed and compared structurally (`Expr.__eq__` = `expr_equals`, `__hash__` =
   `compute_expr_hash`): two nodes are "the same node" of the DAG for every `set`/`dict` of the
   traversal code exactly when they are structurally equal.  A DAG with arbitrary sharing is therefore a
   tree up to structural equality: `Node label children`, where `label` stands for the node's
   non-operand data (type and terminal data). *)
Require Import List Arith Lia Bool.
Import ListNotations.

Inductive tree := Node (label : nat) (children : list tree).

Definition label (t : tree) : nat := match t with Node l _ => l end.
Definition ops (t : tree) : list tree := match t with Node _ cs => cs end.

Section tree_ind2.
  Variable P : tree -> Prop.
  Hypothesis H : forall l cs, Forall P cs -> P (Node l cs).
  Fixpoint tree_ind2 (t : tree) : P t :=
    match t with
    | Node l cs =>
        H l cs ((fix go (cs : list tree) : Forall P cs :=
                   match cs return Forall P cs with
                   | [] => Forall_nil _
                   | c :: r => Forall_cons _ (tree_ind2 c) (go r)
                   end) cs)
    end.
End tree_ind2.

Lemma tree_eq_dec : forall a b : tree, {a = b} + {a <> b}.
Proof.
  fix IH 1. intros [la ca] [lb cb].
  destruct (Nat.eq_dec la lb) as [->|Hn]; [|right; congruence].
  destruct (list_eq_dec IH ca cb) as [->|Hn]; [left; reflexivity|right; congruence].
Defined.

Definition mem (x : tree) (l : list tree) : bool := if in_dec tree_eq_dec x l then true else false.

Lemma mem_In : forall x l, mem x l = true <-> In x l.
Proof. intros x l. unfold mem. destruct (in_dec tree_eq_dec x l); split; intros; auto; discriminate. Qed.

Lemma mem_nIn : forall x l, mem x l = false <-> ~ In x l.
Proof. intros x l. unfold mem. destruct (in_dec tree_eq_dec x l); split; intros; auto; try discriminate; contradiction. Qed.

Fixpoint size (t : tree) : nat :=
  match t with Node _ cs => S (list_sum (map size cs)) end.

Lemma size_pos : forall t, 0 < size t.
Proof. destruct t; simpl; lia. Qed.

Lemma size_child : forall c t, In c (ops t) -> size c < size t.
Proof.
  intros c [l cs]; simpl. induction cs as [|a r IH]; simpl; [tauto|].
  intros [->|Hin]; [lia|]. specialize (IH Hin). lia.
Qed.

Lemma list_sum_in : forall (f : tree -> nat) x l, In x l -> f x <= list_sum (map f l).
Proof. induction l; simpl; [tauto|]. intros [->|H]; [lia|]. specialize (IHl H); lia. Qed.

(* all sub-expressions (with multiplicity, as the tree has them) *)
Fixpoint subterms (t : tree) : list tree :=
  match t with Node _ cs => t :: concat (map subterms cs) end.

Lemma subterms_unfold : forall t, subterms t = t :: concat (map subterms (ops t)).
Proof. destruct t; reflexivity. Qed.

Lemma length_concat_map : forall (f : tree -> list tree) (g : tree -> nat) l,
  (forall x, In x l -> length (f x) = g x) -> length (concat (map f l)) = list_sum (map g l).
Proof.
  induction l; simpl; intros; [reflexivity|].
  rewrite app_length, H, IHl; auto.
Qed.

Lemma length_subterms : forall t, length (subterms t) = size t.
Proof.
  induction t using tree_ind2. simpl. f_equal.
  apply length_concat_map. intros x Hx. rewrite Forall_forall in H. auto.
Qed.

Lemma subterms_self : forall t, In t (subterms t).
Proof. destruct t; simpl; auto. Qed.

Lemma in_concat_map : forall (f : tree -> list tree) x l,
  In x (concat (map f l)) <-> exists c, In c l /\ In x (f c).
Proof.
  intros. rewrite in_concat. split.
  - intros (y & Hy & Hx). apply in_map_iff in Hy. destruct Hy as (c & <- & Hc). eauto.
  - intros (c & Hc & Hx). exists (f c). split; auto. apply in_map; auto.
Qed.

Lemma subterms_child : forall x c t, In c (ops t) -> In x (subterms c) -> In x (subterms t).
Proof.
  intros x c t Hc Hx. rewrite subterms_unfold. right. apply in_concat_map. eauto.
Qed.

Lemma subterms_inv : forall x t, In x (subterms t) -> x = t \/ exists c, In c (ops t) /\ In x (subterms c).
Proof.
  intros x t. rewrite subterms_unfold. intros [<-|H]; [auto|]. right. apply in_concat_map in H. exact H.
Qed.

Lemma subterms_size : forall t x, In x (subterms t) -> size x <= size t.
Proof.
  induction t using tree_ind2. intros x Hx. apply subterms_inv in Hx.
  destruct Hx as [->|(c & Hc & Hx)]; [lia|].
  rewrite Forall_forall in H. specialize (H c Hc x Hx).
  pose proof (size_child c (Node l cs) Hc). lia.
Qed.

Lemma subterms_trans : forall t y x, In y (subterms t) -> In x (subterms y) -> In x (subterms t).
Proof.
  induction t using tree_ind2. intros y x Hy Hx. apply subterms_inv in Hy.
  destruct Hy as [->|(c & Hc & Hy)]; [assumption|].
  rewrite Forall_forall in H. eapply subterms_child; eauto.
Qed.

(* a set that contains t and is closed under operands contains every sub-expression of t *)
Lemma closed_contains_subterms : forall (S : tree -> Prop),
  (forall x, S x -> forall c, In c (ops x) -> S c) ->
  forall t, S t -> forall x, In x (subterms t) -> S x.
Proof.
  intros S Hcl. induction t using tree_ind2. intros Ht x Hx.
  apply subterms_inv in Hx. destruct Hx as [->|(c & Hc & Hx)]; [assumption|].
  rewrite Forall_forall in H. apply (H c Hc); auto. apply (Hcl _ Ht); auto.
Qed.

Lemma concat_rev_map : forall (f : tree -> list tree) l,
  concat (rev (map f l)) = flat_map f (rev l).
Proof.
  intros. rewrite <- map_rev. rewrite flat_map_concat_map. reflexivity.
Qed.
