(* C23: syntactic theorems about the model of C23_model.v (all constructors of expr). *)
Require Import UFLV.Core.Den.
Require Import UFLV.Props.C23_model.

(* ------------------------------------------------------------------------------------------ *)
(* syntactic theorems, complex mode *)
Ltac unf := unfold d1, d2, dx, kc, c2, x2, o1, o2 in *.
Ltac dcheck :=
  repeat match goal with
  | H : context [match check ?cf ?cb ?x with _ => _ end] |- _ =>
      let E := fresh "E" in destruct (check cf cb x) as [[? ?]|] eqn:E; try discriminate H
  | H : context [match checkc ?cf ?cb ?x with _ => _ end] |- _ =>
      let E := fresh "E" in destruct (checkc cf cb x) as [[? ?]|] eqn:E; try discriminate H
  | H : context [match check_list ?cf ?cb ?x with _ => _ end] |- _ =>
      let E := fresh "E" in destruct (check_list cf cb x) as [[? ?]|] eqn:E; try discriminate H
  | H : context [if ?b then _ else _] |- _ =>
      let E := fresh "E" in destruct b eqn:E; try discriminate H
  end.
Ltac inv H := inversion H; subst; clear H.

Lemma forallb_app' {T} (f : T -> bool) l1 l2 : forallb f (l1 ++ l2) = forallb f l1 && forallb f l2.
Proof. induction l1; simpl; [reflexivity|]. rewrite IHl1, andb_assoc. reflexivity. Qed.
Lemma existsb_app' {T} (f : T -> bool) l1 l2 : existsb f (l1 ++ l2) = existsb f l1 || existsb f l2.
Proof. induction l1; simpl; [reflexivity|]. rewrite IHl1, orb_assoc. reflexivity. Qed.

Lemma wrapped_mk_real a : wrapped (mk_real a) = true.
Proof. unfold mk_real. destruct a; reflexivity. Qed.
Lemma wrapped_site_mk a b : wrapped_site (mk_real a, mk_real b) = true.
Proof. unfold wrapped_site; simpl. rewrite !wrapped_mk_real. reflexivity. Qed.
Lemma sites_mk_real a : sites (mk_real a) = sites a.
Proof. unfold mk_real. destruct a; reflexivity. Qed.

Section FX.
Variable cfn : mathfn -> bool.
Variable cbs : bkind -> bool.
Local Notation check := (C23_model.check cfn cbs).
Local Notation checkc := (C23_model.checkc cfn cbs).
Local Notation check_list := (C23_model.check_list cfn cbs).

(* every accepted output has wrapped ordering sites *)
Definition Pwrap (e : expr) : Prop :=
  forall e' t, check e = Some (e', t) -> forallb wrapped_site (sites e') = true.
Definition Qwrap (c : cond) : Prop :=
  forall c' t, checkc c = Some (c', t) -> forallb wrapped_site (csites c') = true.

Lemma wrap_list es :
  (forall x, In x es -> Pwrap x) ->
  forall es' ts, check_list es = Some (es', ts) -> forallb wrapped_site (sites_list es') = true.
Proof.
  induction es as [|x es IH]; intros HP es' ts H; simpl in H.
  - inv H. reflexivity.
  - dcheck. inv H. simpl. rewrite forallb_app'.
    rewrite (HP x (or_introl eq_refl) _ _ E), (IH (fun y Hy => HP y (or_intror Hy)) _ _ eq_refl).
    reflexivity.
Qed.

Lemma In_size_list x es : In x es -> size x < S (size_list es).
Proof. induction es; simpl; [intros []|]; intros [->|H]; [lia|]. specialize (IHes H). lia. Qed.

Lemma wrap_both : (forall e, Pwrap e) /\ (forall c, Qwrap c).
Proof.
  apply size_ind2.
  - intros e IHe IHc e' t H.
    destruct e; try rewrite check_ListTensor in H; simpl in H; unf;
      try (inv H; reflexivity);
      try (dcheck; inv H; simpl; rewrite ?forallb_app'; rewrite ?wrapped_site_mk, ?sites_mk_real;
           repeat match goal with
           | E : check ?x = Some (?y, _) |- _ =>
               rewrite (IHe x ltac:(simpl; lia) _ _ E); clear E
           | E : checkc ?x = Some (?y, _) |- _ =>
               rewrite (IHc x ltac:(simpl; lia) _ _ E); clear E
           end; reflexivity).
    + (* ListTensor *)
      dcheck. inv H. rewrite sites_ListTensor.
      eapply wrap_list; [|exact E]. intros x Hx. apply IHe. rewrite size_ListTensor.
      apply In_size_list, Hx.
  - intros c IHe IHc c' t H.
    destruct c; simpl in H; dcheck; inv H; simpl;
      try match goal with E : ordering _ = _ |- _ => rewrite E end; simpl; rewrite ?forallb_app'; rewrite ?wrapped_site_mk, ?sites_mk_real;
      repeat match goal with
      | E : check ?x = Some (?y, _) |- _ => rewrite (IHe x ltac:(simpl; lia) _ _ E); clear E
      | E : checkc ?x = Some (?y, _) |- _ => rewrite (IHc x ltac:(simpl; lia) _ _ E); clear E
      end; try reflexivity.
Qed.
End FX.
