(* C08 - Function pullbacks implement each element's declared push-forward.

   Hand-written part.

   SPECIFICATION (definitions, not proved - they are what "declared push-forward" means):
     [pf_leaf]  the six Piola formulas + identity on component functions, rank generic
                (leading "row" indices pass through);
     [pf]       push-forward of an element tree: a mixed element is the concatenation of the
                sub-elements' push-forwards at the physical offsets, a symmetric element maps
                component (block, inner) to the push-forward of sub-element symmetry(block).
   MODEL of the code (value level, list based, mirrors ufl/pullback.py line by line):
     [apply_m]  MixedPullback.apply / SymmetricPullback.apply: rflat, offsets, slices, reshape of
                the slice to the sub-element's reference shape, recursive apply, flatten
                (np.ndindex order), concatenate, reshape to physical_value_shape.
   PROVED (for ALL element trees, reference values, J, K, detJ, over every UFL algebra):
     [C08_mixed_symmetric]  apply_m e r c = pf e r c  for every in-range component c
     [C08_double_contra_is_contra_twice], [C08_double_cov_is_cov_twice],
     [C08_covcontra_is_cov_then_contra]   the rank-2 formulas are the rank-1 maps applied to
                                          rows and columns
     [C08_cov_pullback_inverse], [C08_contra_pullback_inverse]  with K J = I (and detJ <> 0) the
                push-forward inverts the pull-back  r = J^T f  /  r = detJ K f
   The tie to /repo is per run (py/props/C08.py): the real apply_function_pullbacks output is
   proved equal to [pf] component by component for every enumerated configuration. *)
Require Import UFLV.Core.Den.
Require Import Lia.

Inductive pb := PId | PContra | PCov | PL2 | PDContra | PDCov | PCovContra.

Inductive elem :=
 | Leaf (p : pb) (rsh : list nat)                       (* pullback kind, reference value shape *)
 | Mixed (subs : list elem)
 | Symm (bs : list nat) (sym : list nat) (subs : list elem).
   (* block shape; symmetry map listed in np.ndindex(block shape) order; sub-elements *)

(* ---------------------------------------------------------------------------------------- *)
(* shapes, row-major flattening *)

Fixpoint sprod (sh : list nat) : nat := match sh with [] => 1 | d :: t => d * sprod t end.

Fixpoint flat (sh c : list nat) : nat :=
  match sh, c with
  | _ :: sh', k :: c' => k * sprod sh' + flat sh' c'
  | _, _ => 0
  end.
Fixpoint unflat (sh : list nat) (n : nat) : list nat :=
  match sh with
  | [] => []
  | _ :: sh' => (n / sprod sh') :: unflat sh' (n mod sprod sh')
  end.
Fixpoint inrange (sh c : list nat) : bool :=
  match sh, c with
  | [], [] => true
  | d :: sh', k :: c' => (k <? d) && inrange sh' c'
  | _, _ => false
  end.
(* np.ndindex(sh): all multi-indices in row-major order *)
Definition ndindex (sh : list nat) : list (list nat) := map (unflat sh) (seq 0 (sprod sh)).

Lemma ndindex_length sh : length (ndindex sh) = sprod sh.
Proof. unfold ndindex. rewrite map_length, seq_length. reflexivity. Qed.

Lemma flat_lt sh : forall c, inrange sh c = true -> flat sh c < sprod sh.
Proof.
  induction sh as [|d sh IH]; intros [|k c] H; cbn in *; try discriminate; [lia|].
  apply andb_prop in H. destruct H as [H1 H2]. apply Nat.ltb_lt in H1.
  specialize (IH _ H2). nia.
Qed.

Lemma unflat_flat sh : forall c, inrange sh c = true -> unflat sh (flat sh c) = c.
Proof.
  induction sh as [|d sh IH]; intros [|k c] H; cbn in *; try discriminate; [reflexivity|].
  apply andb_prop in H. destruct H as [H1 H2].
  pose proof (flat_lt _ _ H2) as L. assert (P : sprod sh <> 0) by lia.
  rewrite Nat.div_add_l by exact P. rewrite Nat.div_small by exact L.
  replace (k * sprod sh + flat sh c) with (flat sh c + k * sprod sh) by lia.
  rewrite Nat.mod_add by exact P. rewrite Nat.mod_small by exact L.
  rewrite IH by exact H2. f_equal. lia.
Qed.

Lemma unflat_inrange sh : forall n, n < sprod sh -> inrange sh (unflat sh n) = true.
Proof.
  induction sh as [|d sh IH]; intros n H; cbn in *; [reflexivity|].
  assert (P : sprod sh <> 0) by (intro E; rewrite E in H; lia).
  apply andb_true_intro; split.
  - apply Nat.ltb_lt. apply Nat.div_lt_upper_bound; [exact P | lia].
  - apply IH. apply Nat.mod_upper_bound. exact P.
Qed.

Lemma flat_unflat sh : forall n, n < sprod sh -> flat sh (unflat sh n) = n.
Proof.
  induction sh as [|d sh IH]; intros n H; cbn in *; [lia|].
  assert (P : sprod sh <> 0) by (intro E; rewrite E in H; lia).
  rewrite IH by (apply Nat.mod_upper_bound; exact P).
  pose proof (Nat.div_mod n (sprod sh) P). lia.
Qed.

Lemma ndindex_nth sh n d : n < sprod sh -> nth n (ndindex sh) d = unflat sh n.
Proof.
  intros H. unfold ndindex.
  rewrite (nth_indep _ d (unflat sh 0)) by (rewrite map_length, seq_length; exact H).
  rewrite map_nth. rewrite seq_nth by exact H. reflexivity.
Qed.

Lemma prod_app a b : sprod (a ++ b) = sprod a * sprod b.
Proof. induction a as [|x a IH]; cbn; [lia|]. rewrite IH. lia. Qed.

Lemma inrange_app a : forall b c, inrange (a ++ b) c = true ->
  inrange a (firstn (length a) c) = true /\ inrange b (skipn (length a) c) = true.
Proof.
  induction a as [|x a IH]; intros b c H; cbn in *.
  - split; [reflexivity | exact H].
  - destruct c as [|k c]; [discriminate|]. apply andb_prop in H. destruct H as [H1 H2].
    destruct (IH _ _ H2) as [I1 I2]. cbn. rewrite H1, I1. split; [reflexivity | exact I2].
Qed.

Lemma flat_app a : forall b c, inrange (a ++ b) c = true ->
  flat (a ++ b) c = flat a (firstn (length a) c) * sprod b + flat b (skipn (length a) c).
Proof.
  induction a as [|x a IH]; intros b c H; cbn in *; [lia|].
  destruct c as [|k c]; [discriminate|]. apply andb_prop in H. destruct H as [_ H2].
  cbn. rewrite (IH _ _ H2). rewrite prod_app. lia.
Qed.

(* ---------------------------------------------------------------------------------------- *)
(* list lemmas *)

Lemma nth_map_lt {X Y} (f : X -> Y) l n dx dy : n < length l -> nth n (map f l) dy = f (nth n l dx).
Proof.
  revert n; induction l as [|x l IH]; intros n H; cbn in *; [lia|].
  destruct n; [reflexivity|]. apply IH. lia.
Qed.

Lemma nth_skipn {X} (l : list X) off n d : nth n (skipn off l) d = nth (off + n) l d.
Proof.
  revert l; induction off as [|off IH]; intros l; cbn; [reflexivity|].
  destruct l; [destruct n; reflexivity|]. apply IH.
Qed.

Lemma nth_firstn {X} (l : list X) m n d : n < m -> nth n (firstn m l) d = nth n l d.
Proof.
  revert l n; induction m as [|m IH]; intros l n H; [lia|].
  destruct l as [|x l]; cbn; [destruct n; reflexivity|].
  destruct n; [reflexivity|]. apply IH. lia.
Qed.

Lemma nth_flat_map_uniform {X Y} (F : X -> list Y) L (l : list X) :
  (forall x, In x l -> length (F x) = L) ->
  forall q m dx dy, q < length l -> m < L ->
  nth (q * L + m) (flat_map F l) dy = nth m (F (nth q l dx)) dy.
Proof.
  induction l as [|x l IH]; intros HL q m dx dy Hq Hm; cbn in *; [lia|].
  destruct q as [|q].
  - cbn. rewrite app_nth1; [reflexivity|]. rewrite HL; auto.
  - rewrite app_nth2; rewrite (HL x) by auto; [|nia].
    replace (S q * L + m - L) with (q * L + m) by nia.
    apply IH; auto. lia.
Qed.

Section C08.
Variable A : ualg.
Add Field AfC08 : (kfield A).

Variables gdim tdim : nat.
Variable J : list nat -> A.       (* J [i; j], i < gdim, j < tdim *)
Variable Kinv : list nat -> A.    (* K [j; i] *)
Variable detJ : A.

Definition vec := list nat -> A.

(* ---------------------------------------------------------------------------------------- *)
(* SPECIFICATION: leaf push-forwards, rank generic: the last one (two) indices are mapped, the
   leading indices k pass through *)

Definition split2 (c : list nat) : list nat * nat * nat :=
  let (c1, j) := split_last c in let (c0, i) := split_last c1 in (c0, i, j).

Definition pf_leaf (p : pb) (r : vec) (c : list nat) : A :=
  match p with
  | PId => r c
  | PL2 => (r c / detJ)%K
  | PContra =>                       (* (1/detJ) J r *)
      let (k, i) := split_last c in
      ksum tdim (fun j => ((k1 / detJ) * J [i; j] * r (k ++ [j]))%K)
  | PCov =>                          (* K^T r *)
      let (k, i) := split_last c in
      ksum tdim (fun j => (Kinv [j; i] * r (k ++ [j]))%K)
  | PDContra =>                      (* (1/detJ^2) J r J^T *)
      let '(k, i, j) := split2 c in
      ksum tdim (fun m => ksum tdim (fun n =>
        ((k1 / detJ) * (k1 / detJ) * J [i; m] * r (k ++ [m; n]) * J [j; n])%K))
  | PDCov =>                         (* K^T r K *)
      let '(k, i, j) := split2 c in
      ksum tdim (fun m => ksum tdim (fun n => (Kinv [m; i] * r (k ++ [m; n]) * Kinv [n; j])%K))
  | PCovContra =>                    (* (1/detJ) K^T r J^T *)
      let '(k, i, j) := split2 c in
      ksum tdim (fun m => ksum tdim (fun n =>
        ((k1 / detJ) * Kinv [m; i] * r (k ++ [m; n]) * J [j; n])%K))
  end.

Definition pshape_leaf (p : pb) (rsh : list nat) : list nat :=
  match p with
  | PId | PL2 => rsh
  | PContra | PCov => removelast rsh ++ [gdim]
  | PDContra | PDCov | PCovContra => removelast (removelast rsh) ++ [gdim; gdim]
  end.

(* reference value size / shape, physical value shape (physical_value_shape of pullback.py) *)
Fixpoint rsize (e : elem) : nat :=
  match e with
  | Leaf _ rsh => sprod rsh
  | Mixed subs | Symm _ _ subs =>
      (fix go (l : list elem) : nat := match l with [] => 0 | x :: t => rsize x + go t end) subs
  end.
Definition rshape (e : elem) : list nat :=
  match e with Leaf _ rsh => rsh | _ => [rsize e] end.
Fixpoint pshape (e : elem) : list nat :=
  match e with
  | Leaf p rsh => pshape_leaf p rsh
  | Mixed subs =>
      [(fix go (l : list elem) : nat :=
          match l with [] => 0 | x :: t => sprod (pshape x) + go t end) subs]
  | Symm bs _ subs => bs ++ match subs with [] => [] | x :: _ => pshape x end
  end.
Definition psize (e : elem) : nat := sprod (pshape e).

Lemma prod_rshape e : sprod (rshape e) = rsize e.
Proof. destruct e; cbn [rshape]; try reflexivity; cbn [sprod]; lia. Qed.

(* sub-vector of r at reference offset roff, seen with the sub-element's reference shape
   (zero outside that shape) *)
Definition subvec (r : vec) (roff : nat) (sh : list nat) : vec :=
  fun c' => if inrange sh c' then r [roff + flat sh c'] else k0.

Fixpoint pf (e : elem) (r : vec) {struct e} : vec :=
  match e with
  | Leaf p _ => pf_leaf p r
  | Mixed subs => fun c =>
      match c with
      | [n] =>
          (fix pick (l : list elem) (roff n : nat) {struct l} : A :=
             match l with
             | [] => k0
             | x :: t =>
                 if n <? psize x
                 then pf x (subvec r roff (rshape x)) (unflat (pshape x) n)
                 else pick t (roff + rsize x) (n - psize x)
             end) subs 0 n
      | _ => k0
      end
  | Symm bs sym subs => fun c =>
      let cb := firstn (length bs) c in
      let cs := skipn (length bs) c in
      (fix sel (l : list elem) (i roff : nat) {struct l} : A :=
         match l, i with
         | [], _ => k0
         | x :: _, O => pf x (subvec r roff (rshape x)) cs
         | x :: t, S i' => sel t i' (roff + rsize x)
         end) subs (nth (flat bs cb) sym 0) 0
  end.

(* ---------------------------------------------------------------------------------------- *)
(* MODEL of MixedPullback.apply / SymmetricPullback.apply on values *)

Definition flatten (sh : list nat) (f : vec) : list A := map f (ndindex sh).
Definition slice (off n : nat) (l : list A) : list A := firstn n (skipn off l).
Definition reshape (sh : list nat) (l : list A) : vec :=
  fun c => if inrange sh c then nth (flat sh c) l k0 else k0.

Fixpoint apply_m (e : elem) (r : vec) {struct e} : vec :=
  match e with
  | Leaf p _ => pf_leaf p r
  | Mixed subs =>
      let rflat := flatten (rshape e) r in
      let g :=
        (fix go (l : list elem) (off : nat) {struct l} : list A :=
           match l with
           | [] => []
           | x :: t =>
               flatten (pshape x)
                       (apply_m x (reshape (rshape x) (slice off (rsize x) rflat)))
               ++ go t (off + rsize x)
           end) subs 0 in
      reshape (pshape e) g
  | Symm bs sym subs =>
      let rflat := flatten (rshape e) r in
      let block :=
        (fix sel (l : list elem) (i off : nat) {struct l} : list A :=
           match l, i with
           | [], _ => []
           | x :: _, O =>
               flatten (pshape x)
                       (apply_m x (reshape (rshape x) (slice off (rsize x) rflat)))
           | x :: t, S i' => sel t i' (off + rsize x)
           end) in
      let g := flat_map (fun q => block subs (nth q sym 0) 0) (seq 0 (sprod bs)) in
      reshape (pshape e) g
  end.

(* well-formed symmetric elements: the symmetry map points at existing sub-elements and all
   sub-elements have the physical shape of the first one (pullback.py computes the physical shape
   from sub_elements[0] only and does not check this) *)
Fixpoint wf (e : elem) : Prop :=
  match e with
  | Leaf _ _ => True
  | Mixed subs => (fix all (l : list elem) : Prop := match l with [] => True | x :: t => wf x /\ all t end) subs
  | Symm bs sym subs =>
      (fix all (l : list elem) : Prop := match l with [] => True | x :: t => wf x /\ all t end) subs
      /\ (forall q, nth q sym 0 < length subs)
      /\ (forall x, In x subs -> pshape x = match subs with [] => [] | y :: _ => pshape y end)
  end.

Definition wf_all := fix all (l : list elem) : Prop := match l with [] => True | x :: t => wf x /\ all t end.

Definition sum_rsize := fix go (l : list elem) : nat := match l with [] => 0 | x :: t => rsize x + go t end.
Definition sum_psize := fix go (l : list elem) : nat := match l with [] => 0 | x :: t => sprod (pshape x) + go t end.

Lemma pf_leaf_ext p r1 r2 c : (forall c', r1 c' = r2 c') -> pf_leaf p r1 c = pf_leaf p r2 c.
Proof.
  intros E. destruct p; cbn [pf_leaf]; unfold split2;
    repeat match goal with |- context [split_last ?x] => destruct (split_last x) end;
    rewrite ?E; try reflexivity;
    repeat (apply ksum_ext; intros ? _); rewrite E; reflexivity.
Qed.

Lemma flatten_length sh f : length (flatten sh f) = sprod sh.
Proof. unfold flatten. rewrite map_length. apply ndindex_length. Qed.

Lemma flatten_nth sh f n : n < sprod sh -> nth n (flatten sh f) k0 = f (unflat sh n).
Proof.
  intros H. unfold flatten.
  rewrite (nth_map_lt f (ndindex sh) n [] k0) by (rewrite ndindex_length; exact H).
  rewrite ndindex_nth by exact H. reflexivity.
Qed.

(* rflat[m] = r[m] *)
Lemma rflat_nth N (r : vec) m : m < N -> nth m (flatten [N] r) k0 = r [m].
Proof.
  intros H. rewrite flatten_nth by (cbn; lia). cbn [unflat sprod].
  rewrite Nat.div_1_r. reflexivity.
Qed.

(* the slice of rflat reshaped to the sub-element's reference shape is the sub-vector *)
Lemma reshape_slice N (r1 r2 : vec) off x :
  (forall c, r1 c = r2 c) -> off + rsize x <= N ->
  forall c', reshape (rshape x) (slice off (rsize x) (flatten [N] r1)) c'
             = subvec r2 off (rshape x) c'.
Proof.
  intros E Hoff c'. unfold reshape, subvec. destruct (inrange (rshape x) c') eqn:R; [|reflexivity].
  pose proof (flat_lt _ _ R) as L. rewrite prod_rshape in L.
  unfold slice. rewrite nth_firstn by exact L. rewrite nth_skipn.
  rewrite rflat_nth by lia. apply E.
Qed.

Definition IHP (x : elem) : Prop :=
  forall r1 r2 c, (forall c', r1 c' = r2 c') -> inrange (pshape x) c = true ->
                  apply_m x r1 c = pf x r2 c.

Lemma mixed_go N (r1 r2 : vec) (E : forall c, r1 c = r2 c) :
  forall l, (fix all (l : list elem) : Prop := match l with [] => True | x :: t => IHP x /\ all t end) l ->
  forall off n, off + sum_rsize l <= N -> n < sum_psize l ->
  nth n ((fix go (l : list elem) (off : nat) {struct l} : list A :=
            match l with
            | [] => []
            | x :: t =>
                flatten (pshape x)
                        (apply_m x (reshape (rshape x) (slice off (rsize x) (flatten [N] r1))))
                ++ go t (off + rsize x)
            end) l off) k0
  = (fix pick (l : list elem) (roff n : nat) {struct l} : A :=
       match l with
       | [] => k0
       | x :: t =>
           if n <? psize x
           then pf x (subvec r2 roff (rshape x)) (unflat (pshape x) n)
           else pick t (roff + rsize x) (n - psize x)
       end) l off n.
Proof.
  induction l as [|x t IHl]; intros Hall off n Hoff Hn; cbn [sum_rsize sum_psize] in *; [lia|].
  destruct Hall as [Hx Ht]. unfold psize.
  destruct (n <? sprod (pshape x)) eqn:C.
  - apply Nat.ltb_lt in C. rewrite app_nth1 by (rewrite flatten_length; exact C).
    rewrite flatten_nth by exact C.
    apply Hx; [apply reshape_slice; [exact E | lia] | apply unflat_inrange; exact C].
  - apply Nat.ltb_ge in C. rewrite app_nth2 by (rewrite flatten_length; exact C).
    rewrite flatten_length. apply IHl; [exact Ht | lia | lia].
Qed.

Lemma symm_block N (r1 r2 : vec) (E : forall c, r1 c = r2 c) pvs cs :
  inrange pvs cs = true ->
  forall l, (fix all (l : list elem) : Prop := match l with [] => True | x :: t => IHP x /\ all t end) l ->
  (forall x, In x l -> pshape x = pvs) ->
  forall i off, i < length l -> off + sum_rsize l <= N ->
  let blk := (fix sel (l : list elem) (i off : nat) {struct l} : list A :=
           match l, i with
           | [], _ => []
           | x :: _, O =>
               flatten (pshape x)
                       (apply_m x (reshape (rshape x) (slice off (rsize x) (flatten [N] r1))))
           | x :: t, S i' => sel t i' (off + rsize x)
           end) l i off in
  length blk = sprod pvs /\
  nth (flat pvs cs) blk k0
  = (fix sel (l : list elem) (i roff : nat) {struct l} : A :=
         match l, i with
         | [], _ => k0
         | x :: _, O => pf x (subvec r2 roff (rshape x)) cs
         | x :: t, S i' => sel t i' (roff + rsize x)
         end) l i off.
Proof.
  intros Rcs. induction l as [|x t IHl]; intros Hall Hsh i off Hi Hoff; cbn [length sum_rsize] in *; [lia|].
  destruct Hall as [Hx Ht]. destruct i as [|i].
  - cbv zeta. rewrite flatten_length. rewrite (Hsh x) by (left; reflexivity). split; [reflexivity|].
    rewrite flatten_nth by (apply flat_lt; exact Rcs). rewrite unflat_flat by exact Rcs.
    apply Hx; [apply reshape_slice; [exact E | lia] | rewrite (Hsh x) by (left; reflexivity); exact Rcs].
  - apply IHl; [exact Ht | intros y Hy; apply Hsh; right; exact Hy | lia | lia].
Qed.

Lemma sum_rsize_eq l : (fix go (l : list elem) : nat := match l with [] => 0 | x :: t => rsize x + go t end) l = sum_rsize l.
Proof. reflexivity. Qed.

Lemma wf_all_IHP l : (forall x, In x l -> wf x -> IHP x) -> wf_all l ->
  (fix all (l : list elem) : Prop := match l with [] => True | x :: t => IHP x /\ all t end) l.
Proof.
  induction l as [|x t IH]; intros H W; [exact I|]. destruct W as [W1 W2]. split.
  - apply H; [left; reflexivity | exact W1].
  - apply IH; [intros y Hy; apply H; right; exact Hy | exact W2].
Qed.

(* induction principle for element trees *)
Lemma elem_rect' (P : elem -> Prop) :
  (forall p rsh, P (Leaf p rsh)) ->
  (forall subs, (forall x, In x subs -> P x) -> P (Mixed subs)) ->
  (forall bs sym subs, (forall x, In x subs -> P x) -> P (Symm bs sym subs)) ->
  forall e, P e.
Proof.
  intros HL HM HS. fix F 1. intros [p rsh|subs|bs sym subs].
  - apply HL.
  - apply HM. induction subs as [|x t IH]; intros y Hy; [destruct Hy | destruct Hy as [Hy|Hy]; [subst y; apply F | apply IH; exact Hy]].
  - apply HS. induction subs as [|x t IH]; intros y Hy; [destruct Hy | destruct Hy as [Hy|Hy]; [subst y; apply F | apply IH; exact Hy]].
Qed.

(* MAIN THEOREM: for every element tree (any nesting depth), every reference value r, every J, K,
   detJ and every in-range physical component c, the modelled MixedPullback/SymmetricPullback
   algorithm returns the declared push-forward: the concatenation of the sub-elements'
   push-forwards at the physical offsets (mixed) / the push-forward of sub-element
   symmetry(block) (symmetric). *)
Theorem C08_mixed_symmetric : forall e, wf e -> forall r1 r2 c,
  (forall c', r1 c' = r2 c') -> inrange (pshape e) c = true -> apply_m e r1 c = pf e r2 c.
Proof.
  induction e as [p rsh|subs IH|bs sym subs IH] using elem_rect'; intros W r1 r2 c E R.
  - cbn [apply_m pf]. apply pf_leaf_ext. exact E.
  - cbn [apply_m pf]. cbn [pshape] in R.
    destruct c as [|n [|n0 l0]]; cbn in R; [discriminate | | rewrite andb_false_r in R; discriminate].
    rewrite andb_true_r in R. apply Nat.ltb_lt in R.
    unfold reshape. cbn [pshape inrange]. replace (n <? _) with true by (symmetry; apply Nat.ltb_lt; exact R).
    cbn [andb flat sprod]. replace (n * 1 + 0) with n by lia.
    cbn [rshape]. cbn [rsize]. rewrite sum_rsize_eq.
    apply (mixed_go (sum_rsize subs) r1 r2 E subs).
    + apply wf_all_IHP; [intros x Hx Wx; exact (IH x Hx Wx) | exact W].
    + lia.
    + exact R.
  - cbn [apply_m pf]. cbn [wf] in W. destruct W as [Wall [Wsym Wsh]].
    cbn [pshape] in R.
    set (pvs := match subs with [] => [] | x :: _ => pshape x end) in *.
    destruct (inrange_app _ _ _ R) as [Rb Rs].
    match goal with |- reshape ?sh ?g c = _ =>
      change (reshape sh g c) with (if inrange sh c then nth (flat sh c) g k0 else k0) end.
    cbn [pshape]. fold pvs. rewrite R.
    rewrite (flat_app _ _ _ R).
    set (cb := firstn (length bs) c) in *. set (cs := skipn (length bs) c) in *.
    cbn [rshape rsize]. rewrite sum_rsize_eq.
    pose proof (flat_lt _ _ Rb) as Lb. pose proof (flat_lt _ _ Rs) as Ls.
    assert (HB : forall q,
      let blk := (fix sel (l : list elem) (i off : nat) {struct l} : list A :=
           match l, i with
           | [], _ => []
           | x :: _, O =>
               flatten (pshape x)
                       (apply_m x (reshape (rshape x) (slice off (rsize x) (flatten [sum_rsize subs] r1))))
           | x :: t, S i' => sel t i' (off + rsize x)
           end) subs (nth q sym 0) 0 in
      length blk = sprod pvs /\
      nth (flat pvs cs) blk k0
      = (fix sel (l : list elem) (i roff : nat) {struct l} : A :=
         match l, i with
         | [], _ => k0
         | x :: _, O => pf x (subvec r2 roff (rshape x)) cs
         | x :: t, S i' => sel t i' (roff + rsize x)
         end) subs (nth q sym 0) 0).
    { intros q. apply (symm_block (sum_rsize subs) r1 r2 E pvs cs Rs subs).
      - apply wf_all_IHP; [intros x Hx Wx; exact (IH x Hx Wx) | exact Wall].
      - exact Wsh.
      - apply Wsym.
      - lia. }
    rewrite (nth_flat_map_uniform _ (sprod pvs) (seq 0 (sprod bs))
               (fun q _ => proj1 (HB q)) (flat bs cb) (flat pvs cs) 0 k0)
      by (rewrite ?seq_length; assumption).
    rewrite seq_nth by exact Lb. cbn [Nat.add].
    exact (proj2 (HB (flat bs cb))).
Qed.

(* the model produces the declared physical shape: outside of it the value is the default *)
Theorem C08_model_shape e r c : (exists s l, e = Mixed l \/ e = Symm (fst s) (snd s) l) ->
  inrange (pshape e) c = false -> apply_m e r c = k0.
Proof.
  intros [s [l [H|H]]] R; subst e; cbn [apply_m]; unfold reshape; rewrite R; reflexivity.
Qed.

(* ---------------------------------------------------------------------------------------- *)
(* the rank-2 formulas are the rank-1 maps applied to rows and then to columns *)

Definition tr2 (f : vec) : vec :=      (* swap the last two indices *)
  fun c => let '(k, i, j) := split2 c in f (k ++ [j; i]).

Lemma split_last_app (k : list nat) i : split_last (k ++ [i]) = (k, i).
Proof.
  unfold split_last. rewrite removelast_last, last_last. reflexivity.
Qed.
Lemma split2_app (k : list nat) i j : split2 (k ++ [i; j]) = (k, i, j).
Proof.
  unfold split2. replace (k ++ [i; j]) with ((k ++ [i]) ++ [j]) by (rewrite <- app_assoc; reflexivity).
  rewrite split_last_app, split_last_app. reflexivity.
Qed.

Lemma app2 (k : list nat) i j : k ++ [i; j] = (k ++ [i]) ++ [j].
Proof. rewrite <- app_assoc. reflexivity. Qed.
Lemma tr2_app (f : vec) k i j : tr2 f (k ++ [i; j]) = f (k ++ [j; i]).
Proof. unfold tr2. rewrite split2_app. reflexivity. Qed.
Lemma pf_cov_app2 (r : vec) k i j :
  pf_leaf PCov r (k ++ [i; j]) = ksum tdim (fun n => (Kinv [n; j] * r (k ++ [i; n]))%K).
Proof.
  cbn [pf_leaf]. rewrite app2, split_last_app. apply ksum_ext; intros n _.
  rewrite <- app_assoc. reflexivity.
Qed.
Lemma pf_contra_app2 (r : vec) k i j :
  pf_leaf PContra r (k ++ [i; j]) = ksum tdim (fun n => ((k1 / detJ) * J [j; n] * r (k ++ [i; n]))%K).
Proof.
  cbn [pf_leaf]. rewrite app2, split_last_app. apply ksum_ext; intros n _.
  rewrite <- app_assoc. reflexivity.
Qed.
Lemma pf_d_app (p : pb) (r : vec) k i j :
  pf_leaf p r (k ++ [i; j]) =
  match p with
  | PDContra => ksum tdim (fun m => ksum tdim (fun n =>
        ((k1 / detJ) * (k1 / detJ) * J [i; m] * r (k ++ [m; n]) * J [j; n])%K))
  | PDCov => ksum tdim (fun m => ksum tdim (fun n => (Kinv [m; i] * r (k ++ [m; n]) * Kinv [n; j])%K))
  | PCovContra => ksum tdim (fun m => ksum tdim (fun n =>
        ((k1 / detJ) * Kinv [m; i] * r (k ++ [m; n]) * J [j; n])%K))
  | _ => pf_leaf p r (k ++ [i; j])
  end.
Proof. destruct p; try reflexivity; cbn [pf_leaf]; rewrite split2_app; reflexivity. Qed.

Theorem C08_double_cov_is_cov_twice (r : vec) k i j :
  pf_leaf PDCov r (k ++ [i; j])
  = pf_leaf PCov (tr2 (pf_leaf PCov (tr2 r))) (k ++ [i; j]).
Proof.
  rewrite pf_cov_app2. rewrite (pf_d_app PDCov).
  rewrite ksum_swap. apply ksum_ext; intros n _.
  rewrite tr2_app, pf_cov_app2, <- ksum_scal. apply ksum_ext; intros m _.
  rewrite tr2_app. ring.
Qed.

Theorem C08_double_contra_is_contra_twice (r : vec) k i j :
  pf_leaf PDContra r (k ++ [i; j])
  = pf_leaf PContra (tr2 (pf_leaf PContra (tr2 r))) (k ++ [i; j]).
Proof.
  rewrite pf_contra_app2. rewrite (pf_d_app PDContra).
  rewrite ksum_swap. apply ksum_ext; intros n _.
  rewrite tr2_app, pf_contra_app2, <- ksum_scal. apply ksum_ext; intros m _.
  rewrite tr2_app. ring.
Qed.

Theorem C08_covcontra_is_cov_then_contra (r : vec) k i j :
  pf_leaf PCovContra r (k ++ [i; j])
  = pf_leaf PContra (tr2 (pf_leaf PCov (tr2 r))) (k ++ [i; j]).
Proof.
  rewrite pf_contra_app2. rewrite (pf_d_app PCovContra).
  rewrite ksum_swap. apply ksum_ext; intros n _.
  rewrite tr2_app, pf_cov_app2, <- ksum_scal. apply ksum_ext; intros m _.
  rewrite tr2_app. ring.
Qed.

(* ---------------------------------------------------------------------------------------- *)
(* the push-forward inverts the pull-back when K J = I_tdim (K the left inverse of J: true on
   immersed manifolds as well) *)

Open Scope K_scope.
Definition delta (i j : nat) : A := if Nat.eqb i j then k1 else k0.
Hypothesis KJ : forall a b, (a < tdim)%nat -> (b < tdim)%nat ->
  ksum gdim (fun i => Kinv [a; i] * J [i; b]) = delta a b.

Lemma ksum_delta n (f : nat -> A) a : (a < n)%nat -> ksum n (fun b => delta a b * f b) = f a.
Proof.
  induction n as [|n IH]; intros H; [lia|]. cbn [ksum].
  destruct (Nat.eq_dec a n) as [->|Hne].
  - unfold delta at 2. rewrite Nat.eqb_refl.
    rewrite (ksum_ext A n _ (fun _ => k0)).
    + rewrite ksum_zero. ring.
    + intros b Hb. unfold delta. replace (n =? b) with false by (symmetry; apply Nat.eqb_neq; lia). ring.
  - rewrite IH by lia. unfold delta. replace (a =? n) with false by (symmetry; apply Nat.eqb_neq; lia). ring.
Qed.

(* covariant: the reference value of the pushed-forward field, J^T f, is r again *)
Theorem C08_cov_pullback_inverse (r : vec) k b : (b < tdim)%nat ->
  ksum gdim (fun i => J [i; b] * pf_leaf PCov r (k ++ [i])) = r (k ++ [b]).
Proof.
  intros Hb. cbn [pf_leaf].
  rewrite (ksum_ext A gdim _ (fun i => ksum tdim (fun j => (Kinv [j; i] * J [i; b]) * r (k ++ [j])))).
  2:{ intros i _. rewrite split_last_app. rewrite <- ksum_scal. apply ksum_ext; intros j _. ring. }
  rewrite ksum_swap.
  rewrite (ksum_ext A tdim _ (fun j => delta j b * r (k ++ [j]))).
  2:{ intros j Hj. rewrite <- (KJ j b Hj Hb).
      rewrite (ksum_ext A gdim _ (fun i => r (k ++ [j]) * (Kinv [j; i] * J [i; b]))) by (intros; ring).
      rewrite ksum_scal. ring. }
  rewrite (ksum_ext A tdim _ (fun j => delta b j * r (k ++ [j]))).
  2:{ intros j _. unfold delta. rewrite Nat.eqb_sym. reflexivity. }
  apply (ksum_delta tdim (fun j => r (k ++ [j])) b Hb).
Qed.

(* contravariant: detJ K f is r again *)
Theorem C08_contra_pullback_inverse (r : vec) k a : (a < tdim)%nat -> detJ <> k0 ->
  ksum gdim (fun i => detJ * Kinv [a; i] * pf_leaf PContra r (k ++ [i])) = r (k ++ [a]).
Proof.
  intros Ha Hd. cbn [pf_leaf].
  rewrite (ksum_ext A gdim _ (fun i => ksum tdim (fun j => (Kinv [a; i] * J [i; j]) * r (k ++ [j])))).
  2:{ intros i _. rewrite split_last_app. rewrite <- ksum_scal. apply ksum_ext; intros j _.
      field. exact Hd. }
  rewrite ksum_swap.
  rewrite (ksum_ext A tdim _ (fun j => delta a j * r (k ++ [j]))).
  2:{ intros j Hj. rewrite <- (KJ a j Ha Hj).
      rewrite (ksum_ext A gdim _ (fun i => r (k ++ [j]) * (Kinv [a; i] * J [i; j]))) by (intros; ring).
      rewrite ksum_scal. ring. }
  apply (ksum_delta tdim (fun j => r (k ++ [j])) a Ha).
Qed.

End C08.

Arguments pf {_}. Arguments apply_m {_}. Arguments pf_leaf {_}.

(* ---------------------------------------------------------------------------------------- *)
(* Mixed element on a MeshSequence: sub-element number i lives on component mesh number i and is
   pushed forward with THAT mesh's J, K, detJ (all component meshes have the same cell type and
   geometric dimension).  Specification [pf_meshseq], model [apply_meshseq] of the MeshSequence
   branch of MixedPullback.apply (subdomain = domain[i]), theorem for all lists of (geometry,
   element tree). *)
Section C08seq.
Variable A : ualg.
Variables gdim tdim : nat.
Record geo := { g_J : list nat -> A; g_K : list nat -> A; g_det : A }.

Fixpoint pf_seq (l : list (geo * elem)) (r : vec A) (roff n : nat) {struct l} : A :=
  match l with
  | [] => k0
  | (g, x) :: t =>
      if n <? psize gdim x
      then pf gdim tdim (g_J g) (g_K g) (g_det g) x (subvec A r roff (rshape x)) (unflat (pshape gdim x) n)
      else pf_seq t r (roff + rsize x) (n - psize gdim x)
  end.
Definition pf_meshseq (l : list (geo * elem)) (r : vec A) (c : list nat) : A :=
  match c with [n] => pf_seq l r 0 n | _ => k0 end.

Fixpoint seq_rsize (l : list (geo * elem)) : nat :=
  match l with [] => 0 | (_, x) :: t => rsize x + seq_rsize t end.
Fixpoint seq_psize (l : list (geo * elem)) : nat :=
  match l with [] => 0 | (_, x) :: t => psize gdim x + seq_psize t end.

Fixpoint go_seq (rflat : list A) (l : list (geo * elem)) (off : nat) {struct l} : list A :=
  match l with
  | [] => []
  | (g, x) :: t =>
      flatten A (pshape gdim x)
        (apply_m gdim tdim (g_J g) (g_K g) (g_det g) x (reshape A (rshape x) (slice A off (rsize x) rflat)))
      ++ go_seq rflat t (off + rsize x)
  end.
Definition apply_meshseq (l : list (geo * elem)) (r : vec A) : vec A :=
  reshape A [seq_psize l] (go_seq (flatten A [seq_rsize l] r) l 0).

Fixpoint seq_wf (l : list (geo * elem)) : Prop :=
  match l with [] => True | (_, x) :: t => wf gdim x /\ seq_wf t end.

Lemma go_seq_nth N (r1 r2 : vec A) (E : forall c, r1 c = r2 c) :
  forall l, seq_wf l -> forall off n, off + seq_rsize l <= N -> n < seq_psize l ->
  nth n (go_seq (flatten A [N] r1) l off) k0 = pf_seq l r2 off n.
Proof.
  induction l as [|[g x] t IHl]; intros W off n Hoff Hn; cbn [seq_rsize seq_psize go_seq pf_seq] in *; [lia|].
  destruct W as [Wx Wt]. unfold psize in *.
  destruct (n <? sprod (pshape gdim x)) eqn:C.
  - apply Nat.ltb_lt in C. rewrite app_nth1 by (rewrite flatten_length; exact C).
    rewrite flatten_nth by exact C.
    apply C08_mixed_symmetric; [exact Wx | apply reshape_slice; [exact E | lia] | apply unflat_inrange; exact C].
  - apply Nat.ltb_ge in C. rewrite app_nth2 by (rewrite flatten_length; exact C).
    rewrite flatten_length. apply IHl; [exact Wt | lia | lia].
Qed.

Theorem C08_mesh_sequence l : seq_wf l -> forall r1 r2 c,
  (forall c', r1 c' = r2 c') -> inrange [seq_psize l] c = true ->
  apply_meshseq l r1 c = pf_meshseq l r2 c.
Proof.
  intros W r1 r2 c E R. unfold apply_meshseq, pf_meshseq.
  destruct c as [|n [|n0 c0]]; cbn in R; [discriminate | | rewrite andb_false_r in R; discriminate].
  rewrite andb_true_r in R. apply Nat.ltb_lt in R.
  unfold reshape. cbn [inrange]. replace (n <? seq_psize l) with true by (symmetry; apply Nat.ltb_lt; exact R).
  cbn [andb flat sprod]. replace (n * 1 + 0) with n by lia.
  apply (go_seq_nth (seq_rsize l) r1 r2 E l W 0 n); [lia | exact R].
Qed.
End C08seq.
Arguments pf_meshseq {_}. Arguments apply_meshseq {_}. Arguments Build_geo {_}.

Print Assumptions C08_mixed_symmetric.
Print Assumptions C08_mesh_sequence.
Print Assumptions C08_double_cov_is_cov_twice.
Print Assumptions C08_double_contra_is_contra_twice.
Print Assumptions C08_covcontra_is_cov_then_contra.
Print Assumptions C08_cov_pullback_inverse.
Print Assumptions C08_contra_pullback_inverse.
