(* C10: generic lemmas about the traversal combinators and the congruence of [den] under
   [emapM] for the non-binding nodes of the fragment. *)
Require Import UFLV.Core.Den UFLV.Props.C10_model.
Import ListNotations.

Definition is_plain (e : expr) : bool :=
  match e with
  | Zero _ _ | Indexed _ _ | IndexSum _ _ _ | ComponentTensor _ _ => false
  | _ => true
  end.

Lemma cexprs_size c acc a : In a (cexprs c acc) -> size a < csize c \/ In a acc.
Proof.
  revert acc; induction c; intros acc H; cbn in *.
  - destruct H as [<-|[<-|H]]; [left; lia|left; lia|right; exact H].
  - apply IHc1 in H. destruct H as [H|H]; [left; lia|]. apply IHc2 in H. destruct H; [left; lia|right; auto].
  - apply IHc1 in H. destruct H as [H|H]; [left; lia|]. apply IHc2 in H. destruct H; [left; lia|right; auto].
  - apply IHc in H. destruct H; [left; lia|right; auto].
Qed.

Lemma cexprs_acc c acc a : In a acc -> In a (cexprs c acc).
Proof. revert acc; induction c; intros acc H; cbn; auto. Qed.

Lemma children_size e a : In a (children e) -> size a < size e.
Proof.
  destruct e; cbn [children size]; intros H;
    try (cbn in H; intuition (subst; lia)).
  - (* ListTensor *)
    induction es as [|x t IH]; cbn in *; [contradiction|].
    destruct H as [<-|H]; [lia|]. apply IH in H. lia.
  - apply cexprs_size in H. cbn in H. intuition (subst; lia).
Qed.

Section Fold.
Context {X : Type} (op : X -> X -> X) (u : X) (f : expr -> X).
Lemma cfold_cexprs c l acc :
  acc = fold_right (fun a r => op (f a) r) u l ->
  cfold op f c acc = fold_right (fun a r => op (f a) r) u (cexprs c l).
Proof.
  revert l acc; induction c; intros l acc ->; cbn; try reflexivity.
  - apply IHc1. apply IHc2. reflexivity.
  - apply IHc1. apply IHc2. reflexivity.
  - apply IHc. reflexivity.
Qed.
Lemma efold_children e :
  efold op u f e = fold_right (fun a r => op (f a) r) u (children e).
Proof. destruct e; try reflexivity; cbn; apply cfold_cexprs; reflexivity. Qed.
End Fold.

Lemma fold_app_in (g : expr -> list nat) l j :
  In j (fold_right (fun a r => g a ++ r) [] l) <-> exists a, In a l /\ In j (g a).
Proof.
  induction l as [|x t IH]; cbn.
  - split; [contradiction|intros [a [[] _]]].
  - rewrite in_app_iff, IH. split.
    + intros [H|[a [Ha Hj]]]; [exists x; auto|exists a; auto].
    + intros [a [[<-|Ha] Hj]]; [left; auto|right; exists a; auto].
Qed.
Lemma fold_andb_all (g : expr -> bool) l :
  fold_right (fun a r => g a && r) true l = true <-> forall a, In a l -> g a = true.
Proof.
  induction l as [|x t IH]; cbn.
  - split; auto; intros _ a [].
  - rewrite andb_true_iff, IH. split.
    + intros [H1 H2] a [<-|Ha]; auto.
    + intros H; split; [apply H; auto|intros a Ha; apply H; auto].
Qed.

Lemma fv_plain e : is_plain e = true -> fv e = efold (@app nat) [] fv e.
Proof. destruct e; try reflexivity; discriminate. Qed.
Lemma aidx_plain e : is_plain e = true -> aidx e = efold (@app nat) [] aidx e.
Proof. destruct e; try reflexivity; discriminate. Qed.
Lemma fv_child e a j : is_plain e = true -> In a (children e) -> In j (fv a) -> In j (fv e).
Proof.
  intros Hp Ha Hj. rewrite (fv_plain e Hp), efold_children. apply fold_app_in. exists a; auto.
Qed.
Lemma aidx_child e a j : is_plain e = true -> In a (children e) -> In j (aidx a) -> In j (aidx e).
Proof.
  intros Hp Ha Hj. rewrite (aidx_plain e Hp), efold_children. apply fold_app_in. exists a; auto.
Qed.
Lemma hyg_child bs e a : is_plain e = true -> hyg bs e = true -> In a (children e) -> hyg bs a = true.
Proof.
  intros Hp Hh Ha.
  destruct e; try discriminate Hp;
    cbn [hyg] in Hh; rewrite efold_children in Hh; rewrite fold_andb_all in Hh; apply Hh; exact Ha.
Qed.

(* ---- congruence of den under emapM for the non-binding nodes of the fragment ---- *)
Lemma removelast_length {X} (l : list X) : length (removelast l) = pred (length l).
Proof. induction l as [|x [|y t] IH]; cbn in *; auto. Qed.

Section Congr.
Variable A : ualg.
Variable env : side -> nat -> nat -> list nat -> A.
Variables D DX : nat -> A -> A.
Variable ki : A.
Notation DEN := (@den A env D DX ki).
Notation DENC := (@denc A env D DX ki).

(* a' = f a has the same shape and the same value at every valid component *)
Definition related (f : expr -> option expr) (rho' rho : nat -> nat) (a : expr) : Prop :=
  forall a', f a = Some a' ->
    forall s c, rk a (length c) = true -> DEN s rho' a' c = DEN s rho a c.

Lemma mapM_some {X Y} (f : X -> option Y) l l' :
  mapM f l = Some l' -> length l' = length l /\
  forall k x, nth_error l k = Some x -> exists y, nth_error l' k = Some y /\ f x = Some y.
Proof.
  revert l'; induction l as [|x t IH]; intros l' H; cbn in H.
  - injection H as <-. split; [reflexivity|]. intros [|k] x0 H0; discriminate H0.
  - unfold bind in H. destruct (f x) as [y|] eqn:Ey; [|discriminate].
    fold (mapM f t) in H. destruct (mapM f t) as [t'|] eqn:Et; [|discriminate]. injection H as <-.
    destruct (IH t' eq_refl) as [Hl Hn]. split; [cbn; congruence|].
    intros [|k] x0 H0; cbn in *.
    + injection H0 as <-. exists y; auto.
    + apply Hn; exact H0.
Qed.

Lemma list_tensor_congr f es es' rho' rho n :
  mapM f es = Some es' ->
  forallb (fun x => rk x n) es = true ->
  (forall a, In a es -> related f rho' rho a) ->
  forall s c, length c = S n -> DEN s rho' (ListTensor es') c = DEN s rho (ListTensor es) c.
Proof.
  intros Hm Hr Hc.
  - intros s c Hl. cbn [den]. destruct c as [|k c']; [reflexivity|].
    cbn in Hl. injection Hl as Hl.
    revert es' Hm k. induction es as [|x t IH]; intros es' Hm k.
    + cbn in Hm. injection Hm as <-. reflexivity.
    + cbn in Hm. unfold bind in Hm. destruct (f x) as [y|] eqn:Ey; [|discriminate].
      fold (mapM f t) in Hm. destruct (mapM f t) as [t'|] eqn:Et; [|discriminate]. injection Hm as <-.
      cbn in Hr. apply andb_true_iff in Hr. destruct Hr as [Hx Ht].
      destruct k as [|k].
      * apply (Hc x (or_introl eq_refl) y Ey). rewrite Hl. exact Hx.
      * apply IH; [exact Ht|intros a Ha; apply Hc; right; exact Ha|reflexivity].
Qed.

Lemma denc_Cmp s rho op a b : DENC s rho (Cmp op a b) = bcmp op (DEN s rho a []) (DEN s rho b []).
Proof. reflexivity. Qed.
Lemma denc_And s rho a b : DENC s rho (AndC a b) = band (DENC s rho a) (DENC s rho b).
Proof. reflexivity. Qed.
Lemma denc_Or s rho a b : DENC s rho (OrC a b) = bor (DENC s rho a) (DENC s rho b).
Proof. reflexivity. Qed.
Lemma denc_Not s rho a : DENC s rho (NotC a) = bnot (DENC s rho a).
Proof. reflexivity. Qed.

Lemma cond_congr f cn cn' rho' rho acc :
  cmapM f cn = Some cn' -> crk cn = true ->
  (forall a, In a (cexprs cn acc) -> related f rho' rho a) ->
  forall s, DENC s rho' cn' = DENC s rho cn.
Proof.
  revert cn' acc; induction cn; intros cn' acc Hm Hr Hc s; cbn in Hm; unfold bind in Hm;
    cbn [crk] in Hr; try (apply andb_true_iff in Hr; destruct Hr as [Hr1 Hr2]).
  - destruct (f a) as [a'|] eqn:Ea; [|discriminate]. destruct (f b) as [b'|] eqn:Eb; [|discriminate].
    injection Hm as <-. rewrite !denc_Cmp.
    pose proof (Hc a (or_introl eq_refl) a' Ea) as Va.
    pose proof (Hc b (or_intror (or_introl eq_refl)) b' Eb) as Vb.
    rewrite (Va s [] Hr1), (Vb s [] Hr2). reflexivity.
  - destruct (cmapM f cn1) as [c1|] eqn:E1; [|discriminate].
    destruct (cmapM f cn2) as [c2|] eqn:E2; [|discriminate]. injection Hm as <-. rewrite ?denc_And, ?denc_Or.
    rewrite (IHcn1 c1 (cexprs cn2 acc) eq_refl Hr1 Hc s).
    rewrite (IHcn2 c2 acc eq_refl Hr2); [reflexivity|].
    intros a Ha. apply Hc. cbn. apply cexprs_acc. exact Ha.
  - destruct (cmapM f cn1) as [c1|] eqn:E1; [|discriminate].
    destruct (cmapM f cn2) as [c2|] eqn:E2; [|discriminate]. injection Hm as <-. rewrite ?denc_And, ?denc_Or.
    rewrite (IHcn1 c1 (cexprs cn2 acc) eq_refl Hr1 Hc s).
    rewrite (IHcn2 c2 acc eq_refl Hr2); [reflexivity|].
    intros a Ha. apply Hc. cbn. apply cexprs_acc. exact Ha.
  - destruct (cmapM f cn) as [c1|] eqn:E1; [|discriminate]. injection Hm as <-. rewrite !denc_Not.
    rewrite (IHcn c1 acc eq_refl Hr Hc s). reflexivity.
Qed.

Lemma den_Conditional s rho cn t e0 c :
  DEN s rho (Conditional cn t e0) c = kcond (DENC s rho cn) (DEN s rho t c) (DEN s rho e0 c).
Proof. reflexivity. Qed.

Ltac inv_emap H :=
  cbn [emapM is_lit] in H; unfold ap1, ap2, bind in H;
  repeat match type of H with
         | context [match ?f ?a with _ => _ end] =>
             let E := fresh "E" in destruct (f a) eqn:E; [|discriminate H]
         end;
  injection H as <-.
Ltac use_child Hc :=
  repeat match goal with
         | E : ?f ?a = Some ?a' |- _ =>
             let V := fresh "V" in
             pose proof (Hc a ltac:(cbn; auto 6) a' E) as V; clear E
         end.
Ltac split_rk Hr :=
  cbn [rk] in Hr;
  repeat (let R := fresh "R" in apply andb_true_iff in Hr; destruct Hr as [Hr R]).
Ltac scalar_pos Hr c :=
  match type of Hr with
  | (Nat.eqb (length c) 0) = true => destruct c; [|discriminate Hr]
  | _ => idtac
  end.

Lemma emapM_congr f e e' rho' rho n :
  is_plain e = true -> rk e n = true -> emapM f e = Some e' ->
  (forall a, In a (children e) -> related f rho' rho a) ->
  forall s c, length c = n -> DEN s rho' e' c = DEN s rho e c.
Proof.
  intros Hp Hr Hm Hc.
  destruct e; try discriminate Hp; try discriminate Hr.
  all: try (injection Hm as <-; intros s c _; reflexivity).
  all: try (inv_emap Hm; use_child Hc;
            intros s c Hl; subst n; split_rk Hr; scalar_pos Hr c;
            cbn [den]; rewrite ?V, ?V0 by assumption; reflexivity).
  - (* Power *)
    split_rk Hr. cbn [emapM] in Hm. rewrite R0 in Hm. unfold ap1, bind in Hm.
    destruct (f e1) as [a'|] eqn:E; [|discriminate]. injection Hm as <-.
    pose proof (Hc e1 (or_introl eq_refl) a' E) as V.
    intros s c Hl.
    destruct e2; try discriminate R0; try (destruct z); cbn [den]; rewrite ?V by assumption; reflexivity.
  - (* ListTensor *)
    cbn [emapM] in Hm. unfold bind in Hm. destruct (mapM f es) as [es'|] eqn:E; [|discriminate].
    injection Hm as <-. cbn [rk] in Hr. destruct n as [|n]; [discriminate|].
    apply (list_tensor_congr f es es' rho' rho n E Hr). exact Hc.
  - (* Conditional *)
    cbn [emapM] in Hm. unfold bind in Hm.
    destruct (cmapM f c) as [c'|] eqn:Ec; [|discriminate].
    destruct (f e1) as [t'|] eqn:E1; [|discriminate].
    destruct (f e2) as [f'|] eqn:E2; [|discriminate]. injection Hm as <-.
    assert (H1 : In e1 (children (Conditional c e1 e2))).
    { cbn. apply cexprs_acc. cbn; auto. }
    assert (H2 : In e2 (children (Conditional c e1 e2))).
    { cbn. apply cexprs_acc. cbn; auto. }
    pose proof (Hc e1 H1 t' E1) as V1. pose proof (Hc e2 H2 f' E2) as V2.
    split_rk Hr.
    intros s c0 Hl. subst n. rewrite !den_Conditional.
    rewrite V1, V2 by assumption. rewrite (cond_congr f c c' rho' rho [e1; e2] Ec Hr Hc s). reflexivity.
  - (* Grad *)
    inv_emap Hm. use_child Hc.
    intros s c Hl. subst n. cbn [rk] in Hr. cbn [den split_last].
    rewrite V; [reflexivity|]. rewrite removelast_length. destruct (length c); [discriminate|exact Hr].
  - (* RefGrad *)
    inv_emap Hm. use_child Hc.
    intros s c Hl. subst n. cbn [rk] in Hr. cbn [den split_last].
    rewrite V; [reflexivity|]. rewrite removelast_length. destruct (length c); [discriminate|exact Hr].
Qed.

End Congr.

(* ---- rank typing is preserved by emapM when it is preserved on the children ---- *)
Definition rk_pres (f : expr -> option expr) (a : expr) : Prop :=
  forall a' k, f a = Some a' -> rk a k = true -> rk a' k = true.

Lemma mapM_forallb f es es' (P : expr -> bool) (Q : expr -> bool) :
  mapM f es = Some es' ->
  (forall a a', In a es -> f a = Some a' -> P a = true -> Q a' = true) ->
  forallb P es = true -> forallb Q es' = true.
Proof.
  revert es'; induction es as [|x t IH]; intros es' Hm H Hall; cbn in Hm.
  - injection Hm as <-. reflexivity.
  - unfold bind in Hm. destruct (f x) as [y|] eqn:Ey; [|discriminate].
    fold (mapM f t) in Hm. destruct (mapM f t) as [t'|] eqn:Et; [|discriminate]. injection Hm as <-.
    cbn in Hall. apply andb_true_iff in Hall. destruct Hall as [Hx Ht]. cbn.
    rewrite (H x y (or_introl eq_refl) Ey Hx). cbn.
    apply IH; [reflexivity| |exact Ht]. intros a a' Ha. apply H. right. exact Ha.
Qed.

Lemma cmapM_crk f cn cn' acc :
  cmapM f cn = Some cn' -> (forall a, In a (cexprs cn acc) -> rk_pres f a) ->
  crk cn = true -> crk cn' = true.
Proof.
  revert cn' acc; induction cn; intros cn' acc Hm Hc Hr; cbn in Hm; unfold bind in Hm;
    cbn [crk] in Hr; try (apply andb_true_iff in Hr; destruct Hr as [Hr1 Hr2]).
  - destruct (f a) as [a'|] eqn:Ea; [|discriminate]. destruct (f b) as [b'|] eqn:Eb; [|discriminate].
    injection Hm as <-. cbn [crk].
    rewrite (Hc a (or_introl eq_refl) a' 0 Ea Hr1), (Hc b (or_intror (or_introl eq_refl)) b' 0 Eb Hr2).
    reflexivity.
  - destruct (cmapM f cn1) as [c1|] eqn:E1; [|discriminate].
    destruct (cmapM f cn2) as [c2|] eqn:E2; [|discriminate]. injection Hm as <-. cbn [crk].
    rewrite (IHcn1 c1 (cexprs cn2 acc) eq_refl Hc Hr1).
    rewrite (IHcn2 c2 acc eq_refl); [reflexivity| |exact Hr2].
    intros a Ha. apply Hc. cbn. apply cexprs_acc. exact Ha.
  - destruct (cmapM f cn1) as [c1|] eqn:E1; [|discriminate].
    destruct (cmapM f cn2) as [c2|] eqn:E2; [|discriminate]. injection Hm as <-. cbn [crk].
    rewrite (IHcn1 c1 (cexprs cn2 acc) eq_refl Hc Hr1).
    rewrite (IHcn2 c2 acc eq_refl); [reflexivity| |exact Hr2].
    intros a Ha. apply Hc. cbn. apply cexprs_acc. exact Ha.
  - destruct (cmapM f cn) as [c1|] eqn:E1; [|discriminate]. injection Hm as <-. cbn [crk].
    apply (IHcn c1 acc eq_refl Hc Hr).
Qed.

Ltac inv_emap' H :=
  cbn [emapM is_lit] in H; unfold ap1, ap2, bind in H;
  repeat match type of H with
         | context [match ?f ?a with _ => _ end] =>
             let E := fresh "E" in destruct (f a) eqn:E; [|discriminate H]
         end;
  injection H as <-.
Ltac split_rk' Hr :=
  cbn [rk] in Hr;
  repeat (let R := fresh "R" in apply andb_true_iff in Hr; destruct Hr as [Hr R]).

Lemma emapM_rk f e e' n :
  rk e n = true -> emapM f e = Some e' ->
  (forall a, In a (children e) -> rk_pres f a) -> rk e' n = true.
Proof.
  intros Hr Hm Hc.
  destruct e; try discriminate Hr.
  all: try (injection Hm as <-; exact Hr).
  all: try (inv_emap' Hm; split_rk' Hr; cbn [rk];
            repeat match goal with
                   | E : ?f ?a = Some ?a', R : rk ?a ?k = true |- _ =>
                       rewrite (Hc a ltac:(cbn; auto 6) a' k E R); clear E
                   end;
            rewrite ?Hr, ?R, ?R0; reflexivity).
  - (* Power *)
    split_rk' Hr. cbn [emapM] in Hm. rewrite R0 in Hm. unfold ap1, bind in Hm.
    destruct (f e1) as [a'|] eqn:E; [|discriminate]. injection Hm as <-. cbn [rk].
    rewrite Hr, R0, (Hc e1 (or_introl eq_refl) a' 0 E R). reflexivity.
  - (* ListTensor *)
    cbn [emapM] in Hm. unfold bind in Hm. destruct (mapM f es) as [es'|] eqn:E; [|discriminate].
    injection Hm as <-. cbn [rk] in *. destruct n as [|n]; [discriminate|].
    apply (mapM_forallb f es es' (fun x => rk x n) (fun x => rk x n) E); [|exact Hr].
    intros a a' Ha Ea Hra. apply (Hc a Ha a' n Ea Hra).
  - (* Conditional *)
    cbn [emapM] in Hm. unfold bind in Hm.
    destruct (cmapM f c) as [c'|] eqn:Ec; [|discriminate].
    destruct (f e1) as [t'|] eqn:E1; [|discriminate].
    destruct (f e2) as [f'|] eqn:E2; [|discriminate]. injection Hm as <-.
    split_rk' Hr. cbn [rk].
    rewrite (cmapM_crk f c c' [e1; e2] Ec Hc Hr).
    rewrite (Hc e1 ltac:(cbn; apply cexprs_acc; cbn; auto) t' n E1 R0).
    rewrite (Hc e2 ltac:(cbn; apply cexprs_acc; cbn; auto) f' n E2 R). reflexivity.
  - (* Grad *)
    inv_emap' Hm. cbn [rk] in *. destruct n as [|n]; [discriminate|].
    apply (Hc e ltac:(cbn; auto) e0 n E Hr).
  - (* RefGrad *)
    inv_emap' Hm. cbn [rk] in *. destruct n as [|n]; [discriminate|].
    apply (Hc e ltac:(cbn; auto) e0 n E Hr).
Qed.
