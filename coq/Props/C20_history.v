(* C20 - type dispatch under later registration of expression types.

   State machine over: the live class registry (UFLType._ufl_all_classes_, index = typecode), the
   snapshot `ufl.classes.all_ufl_classes` taken at import, and the per-algorithm-class handler-table
   caches (MultiFunction._handlers_cache / Transformer._handlers_cache, keyed by the algorithm class).
   The cache policy of each of the two `__init__`s is a parameter extracted from the source (T1):
     validate_len  - a cached table is recomputed when its length differs from the registry's;
     live_registry - tables are computed over the live registry (not the import-time snapshot).
   Operations: Register (a new @ufl_type class, given by the handler names along its mro),
   Instantiate alg, Apply alg typecode (= instantiate and dispatch on a typecode).
   `None` as an Apply result is Python's IndexError. *)
Require Import List Arith NArith Lia Bool.
Require Import UFLV.Props.C19_dispatch.
Import ListNotations.

(* MultiFunction subclasses, Transformer subclasses, plain functions passed to map_expr_dag(s) *)
Inductive kind := MF | TR | FN.
Record alg := mkalg { a_id : nat; a_kind : kind; a_has : list N }.

Lemma alg_eq_dec : forall a b : alg, {a = b} + {a <> b}.
Proof.
  decide equality; [apply (list_eq_dec N.eq_dec)|decide equality|apply Nat.eq_dec].
Defined.

Record policy := mkpol { validate_len : bool; live_registry : bool }.

Definition registry := list (list N).
Definition table := list (option N).
Record state := mkst { reg : registry; snapshot : registry; cache : list (alg * table) }.
Inductive op := Register (mro : list N) | Instantiate (a : alg) | Apply (a : alg) (tc : nat).

(* the table C19's dispatch theorem specifies for registry r *)
Definition fresh (a : alg) (r : registry) : table := map (resolve (hasl (a_has a))) r.

Fixpoint clookup (a : alg) (c : list (alg * table)) : option table :=
  match c with
  | [] => None
  | (b, t) :: rest => if alg_eq_dec a b then Some t else clookup a rest
  end.

Definition reg_next (r : registry) (o : op) : registry :=
  match o with Register m => r ++ [m] | _ => r end.

(* what C19 specifies: dispatch over the registry as it is when Apply runs *)
Fixpoint spec_outputs (h : list op) (r : registry) : list (option (option N)) :=
  match h with
  | [] => []
  | o :: rest => (match o with Apply a tc => [nth_error (fresh a r) tc] | _ => [] end)
                 ++ spec_outputs rest (reg_next r o)
  end.

Section Model.
Variable pol : kind -> policy.

Definition source (st : state) (a : alg) : registry :=
  if live_registry (pol (a_kind a)) then reg st else snapshot st.

(* `__init__`: look up the class-level cache, (re)compute and store if absent [or stale] *)
Definition instantiate (st : state) (a : alg) : state * table :=
  let t' := fresh a (source st a) in
  let recompute := (mkst (reg st) (snapshot st) ((a, t') :: cache st), t') in
  match clookup a (cache st) with
  | Some t => if validate_len (pol (a_kind a)) && negb (Nat.eqb (length t) (length (reg st)))
              then recompute else (st, t)
  | None => recompute
  end.

Definition next (st : state) (o : op) : state :=
  match o with
  | Register m => mkst (reg st ++ [m]) (snapshot st) (cache st)
  | Instantiate a => fst (instantiate st a)
  | Apply a _ => fst (instantiate st a)
  end.

Fixpoint outputs (h : list op) (st : state) : list (option (option N)) :=
  match h with
  | [] => []
  | o :: rest => (match o with Apply a tc => [nth_error (snd (instantiate st a)) tc] | _ => [] end)
                 ++ outputs rest (next st o)
  end.

Lemma reg_instantiate : forall st a, reg (fst (instantiate st a)) = reg st.
Proof.
  intros. unfold instantiate. destruct (clookup a (cache st)); simpl; auto.
  destruct (validate_len _ && _); auto.
Qed.

Lemma reg_next_eq : forall st o, reg (next st o) = reg_next (reg st) o.
Proof. intros st [m|a|a tc]; simpl; auto using reg_instantiate. Qed.

(* Inv (strong): every cached table is the freshly computed one *)
Definition Inv (st : state) : Prop := forall a t, clookup a (cache st) = Some t -> t = fresh a (reg st).
(* InvPrefix: every cached table is the fresh table of a prefix of the (append-only) registry *)
Definition InvPrefix (st : state) : Prop :=
  forall a t, clookup a (cache st) = Some t -> t = fresh a (firstn (length t) (reg st)).
Definition src_ok (st : state) : Prop := forall a, source st a = reg st.

Lemma fresh_length : forall a r, length (fresh a r) = length r.
Proof. intros. apply map_length. Qed.

Lemma prefix_len : forall a t r, t = fresh a (firstn (length t) r) -> length t <= length r.
Proof.
  intros a t r H. apply (f_equal (@length _)) in H. rewrite fresh_length in H.
  rewrite firstn_length in H. lia.
Qed.

Lemma clookup_cons : forall a b t c,
  clookup a ((b, t) :: c) = if alg_eq_dec a b then Some t else clookup a c.
Proof. reflexivity. Qed.

(* ---------- full theorem: a validating, live policy ---------- *)
Hypothesis good : forall k, validate_len (pol k) = true /\ live_registry (pol k) = true.

Lemma source_good : forall st a, source st a = reg st.
Proof. intros. unfold source. destruct (good (a_kind a)) as [_ ->]. reflexivity. Qed.

Lemma instantiate_good : forall st a, InvPrefix st ->
  snd (instantiate st a) = fresh a (reg st) /\ InvPrefix (fst (instantiate st a)).
Proof.
  intros st a HI. unfold instantiate. rewrite source_good.
  destruct (good (a_kind a)) as [-> _]. simpl andb.
  assert (Hnew : InvPrefix (mkst (reg st) (snapshot st) ((a, fresh a (reg st)) :: cache st))).
  { intros b t. simpl reg. simpl cache. rewrite clookup_cons. destruct (alg_eq_dec b a) as [->|Hn].
    - intros H; inversion H; subst. rewrite fresh_length, firstn_all. reflexivity.
    - apply HI. }
  destruct (clookup a (cache st)) as [t|] eqn:E; simpl; auto.
  destruct (Nat.eqb (length t) (length (reg st))) eqn:El; simpl; auto.
  apply Nat.eqb_eq in El. split; auto.
  rewrite (HI a t E) at 1. rewrite El, firstn_all. reflexivity.
Qed.

Lemma InvPrefix_register : forall st m, InvPrefix st -> InvPrefix (mkst (reg st ++ [m]) (snapshot st) (cache st)).
Proof.
  intros st m HI a t E. simpl in *. pose proof (HI a t E) as H.
  pose proof (prefix_len a t (reg st) H) as Hl.
  rewrite firstn_app. replace (length t - length (reg st)) with 0 by lia.
  simpl. rewrite app_nil_r. exact H.
Qed.

(* C20 (full form, holds for a policy that validates the cached table against the live registry):
   for EVERY history, every Apply returns what C19's dispatch specifies for the registry at that
   moment - independently of all earlier Instantiates. *)
Theorem C20_history : forall h st, InvPrefix st -> outputs h st = spec_outputs h (reg st).
Proof.
  induction h as [|o rest IH]; intros st HI; simpl; auto.
  rewrite <- reg_next_eq. destruct o as [m|a|a tc]; simpl.
  - apply IH. apply InvPrefix_register; auto.
  - apply IH. apply instantiate_good; auto.
  - destruct (instantiate_good st a HI) as [-> HI']. f_equal. apply IH; auto.
Qed.
End Model.

(* ---------- partial theorem: ANY policy, no registration after first use ---------- *)
Fixpoint no_register (h : list op) : Prop :=
  match h with [] => True | Register _ :: _ => False | _ :: r => no_register r end.

Lemma instantiate_inv : forall pol st a, Inv st -> src_ok pol st ->
  snd (instantiate pol st a) = fresh a (reg st) /\ Inv (fst (instantiate pol st a))
  /\ src_ok pol (fst (instantiate pol st a)).
Proof.
  intros pol st a HI Hs. unfold instantiate. rewrite (Hs a).
  assert (Hnew : Inv (mkst (reg st) (snapshot st) ((a, fresh a (reg st)) :: cache st))).
  { intros b t. simpl reg. simpl cache. rewrite clookup_cons. destruct (alg_eq_dec b a) as [->|Hn].
    - intros H; inversion H; subst. reflexivity.
    - apply HI. }
  assert (Hsn : src_ok pol (mkst (reg st) (snapshot st) ((a, fresh a (reg st)) :: cache st))).
  { intros b. unfold source in *. simpl. apply (Hs b). }
  destruct (clookup a (cache st)) as [t|] eqn:E; simpl; auto.
  pose proof (HI a t E) as Ht.
  replace (Nat.eqb (length t) (length (reg st))) with true.
  - rewrite andb_false_r. simpl. auto.
  - symmetry. apply Nat.eqb_eq. rewrite Ht. apply fresh_length.
Qed.

Theorem C20_history_partial : forall pol h st, Inv st -> src_ok pol st -> no_register h ->
  outputs pol h st = spec_outputs h (reg st).
Proof.
  intros pol. induction h as [|o rest IH]; intros st HI Hs Hn; simpl; auto.
  rewrite <- (reg_next_eq pol). destruct o as [m|a|a tc]; simpl in *.
  - contradiction.
  - destruct (instantiate_inv pol st a HI Hs) as (_ & HI' & Hs'). apply IH; auto.
  - destruct (instantiate_inv pol st a HI Hs) as (-> & HI' & Hs'). f_equal. apply IH; auto.
Qed.

(* all registrations before the first use of any algorithm class: fine for live-registry policies *)
Theorem C20_history_partial_registers_first : forall pol, (forall k, live_registry (pol k) = true) ->
  forall regs h st, cache st = [] -> no_register h ->
  outputs pol (map Register regs ++ h) st = spec_outputs (map Register regs ++ h) (reg st).
Proof.
  intros pol Hlive. induction regs as [|m regs IH]; intros h st Hc Hn.
  - simpl. apply C20_history_partial; auto.
    + intros a t. rewrite Hc. discriminate.
    + intros a. unfold source. rewrite Hlive. reflexivity.
  - simpl. rewrite (IH h (mkst (reg st ++ [m]) (snapshot st) (cache st))); auto.
Qed.

(* ---------- refutation for a non-validating policy (the 3-step history) ---------- *)
(* handler names: 0 = ufl_type (default), 1 = expr, 2 = sum, 3 = new_op *)
Definition w_reg : registry := [[1; 0]; [2; 1; 0]]%N.
Definition w_st : state := mkst w_reg w_reg [].
Definition w_alg (k : kind) : alg := mkalg 0 k [1; 0]%N.
Definition w_hist (k : kind) : list op := [Instantiate (w_alg k); Register [3; 1; 0]%N; Apply (w_alg k) 2].

Theorem C20_history_refuted : forall pol k, validate_len (pol k) = false ->
  InvPrefix w_st /\ Inv w_st /\
  outputs pol (w_hist k) w_st = [None] /\
  spec_outputs (w_hist k) (reg w_st) = [Some (Some 1%N)].
Proof.
  intros pol k Hv. repeat split; try (intros a t H; discriminate).
  destruct k;
    match type of Hv with context [pol ?K0] => destruct (pol K0) as [v l] eqn:E end;
    simpl in Hv; subst v; cbv; rewrite !E; destruct l; reflexivity.
Qed.

(* a policy that computes tables over the import-time snapshot fails even when the registration
   precedes every use *)
Definition w_hist2 (k : kind) : list op := [Register [3; 1; 0]%N; Apply (w_alg k) 2].

Theorem C20_history_refuted_snapshot : forall pol k, live_registry (pol k) = false ->
  outputs pol (w_hist2 k) w_st = [None] /\
  spec_outputs (w_hist2 k) (reg w_st) = [Some (Some 1%N)].
Proof.
  intros pol k Hl. split; [|reflexivity].
  destruct k;
    match type of Hl with context [pol ?K0] => destruct (pol K0) as [v l] eqn:E end;
    simpl in Hl; subst l; cbv; rewrite !E; reflexivity.
Qed.

Print Assumptions C20_history.
Print Assumptions C20_history_partial.
Print Assumptions C20_history_partial_registers_first.
Print Assumptions C20_history_refuted.
Print Assumptions C20_history_refuted_snapshot.
