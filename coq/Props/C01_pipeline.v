(* C01, composition part.  The stage list of compute_form_data / preprocess_form / FormData.__init__
   is regenerated from the Python source (py/props/C01.py, `ast`) as a Gallina function
   [extracted : opts -> list stage] in Gen/C01_extracted.v.  This file holds what does not depend on
   the source: the stage vocabulary, the option record, and the composition theorem: if every stage
   preserves the meaning of every integral except the scaling stage, which multiplies it by the
   measure's scaling factor, then running any stage list that contains the scaling stage exactly once
   multiplies the meaning by that factor exactly once (and not at all if it is absent). *)
Require Import List Bool Arith Lia.
Import ListNotations.

Inductive stage :=
 | ComparisonCheck | AlgebraLowering | RemoveComplexNodes | ApplyDerivatives | GroupIntegrals
 | AttachDegrees | FunctionPullbacks | IntegralScaling | GeometryLowering (preserve_jacobians : bool)
 | RemoveComponentTensors | CancelJacobianProducts | CoordinateDerivatives | BuildIntegralData
 | ReplaceFunctions | SplitCoefficients | ApplyRestrictions (with_defaults : bool)
 | CheckElements | CheckFacetGeometry | CheckArity.

Definition stage_eqb (a b : stage) : bool :=
  match a, b with
  | ComparisonCheck, ComparisonCheck | AlgebraLowering, AlgebraLowering
  | RemoveComplexNodes, RemoveComplexNodes | ApplyDerivatives, ApplyDerivatives
  | GroupIntegrals, GroupIntegrals | AttachDegrees, AttachDegrees
  | FunctionPullbacks, FunctionPullbacks | IntegralScaling, IntegralScaling
  | RemoveComponentTensors, RemoveComponentTensors | CancelJacobianProducts, CancelJacobianProducts
  | CoordinateDerivatives, CoordinateDerivatives | BuildIntegralData, BuildIntegralData
  | ReplaceFunctions, ReplaceFunctions | SplitCoefficients, SplitCoefficients
  | CheckElements, CheckElements | CheckFacetGeometry, CheckFacetGeometry | CheckArity, CheckArity => true
  | GeometryLowering x, GeometryLowering y => Bool.eqb x y
  | ApplyRestrictions x, ApplyRestrictions y => Bool.eqb x y
  | _, _ => false
  end.

Record opts := {
  o_pullbacks : bool; o_scaling : bool; o_geometry : bool; o_cancel : bool; o_default_restr : bool;
  o_restr : bool; o_degrees : bool; o_replace : bool; o_split : bool; o_complex : bool; o_remove_ct : bool }.

(* case analysis over all 2^11 option records *)
Ltac all_options o := destruct o as [[] [] [] [] [] [] [] [] [] [] []].

Definition count_stage (s : stage) (l : list stage) : nat := length (filter (stage_eqb s) l).
Fixpoint index_of (s : stage) (l : list stage) : option nat :=
  match l with [] => None | x :: r => if stage_eqb s x then Some 0
                                     else match index_of s r with Some n => Some (S n) | None => None end end.
Fixpoint last_index_of (s : stage) (l : list stage) : option nat :=
  match l with
  | [] => None
  | x :: r => match last_index_of s r with
              | Some n => Some (S n)
              | None => if stage_eqb s x then Some 0 else None
              end
  end.
(* every occurrence of a is before the first occurrence of b (vacuous if either is absent) *)
Definition all_before (a b : stage) (l : list stage) : bool :=
  match last_index_of a l, index_of b l with
  | Some i, Some j => Nat.ltb i j
  | _, _ => true
  end.
(* the last occurrence of a is after the last occurrence of b (vacuous if b absent; a must be present) *)
Definition last_after (a b : stage) (l : list stage) : bool :=
  match last_index_of b l with
  | None => true
  | Some j => match last_index_of a l with Some i => Nat.ltb j i | None => false end
  end.

(* ---- the composition theorem ---- *)
Section Compose.
Variable form : Type.
Variable V : Type.                       (* the meaning of a form: what each integral integrates *)
Variable scale : V -> V.                 (* multiplication by the measure's scaling factor *)
Variable sem : form -> V.
Variable run : stage -> form -> option form.
Hypothesis sound : forall s f f', s <> IntegralScaling -> run s f = Some f' -> sem f' = sem f.
Hypothesis scaling : forall f f', run IntegralScaling f = Some f' -> sem f' = scale (sem f).

Fixpoint run_all (l : list stage) (f : form) : option form :=
  match l with
  | [] => Some f
  | s :: r => match run s f with Some f' => run_all r f' | None => None end
  end.

Fixpoint iter (n : nat) (v : V) : V := match n with O => v | S m => scale (iter m v) end.

Lemma stage_eqb_eq a b : stage_eqb a b = true <-> a = b.
Proof. destruct a as [| | | | | | | | [] | | | | | | | [] | | | ], b as [| | | | | | | | [] | | | | | | | [] | | | ];
  cbn; split; congruence. Qed.

Lemma iter_shift n v : iter n (scale v) = scale (iter n v).
Proof. induction n as [|n IH]; cbn; congruence. Qed.

Theorem run_all_sem l : forall f f', run_all l f = Some f' ->
  sem f' = iter (count_stage IntegralScaling l) (sem f).
Proof.
  induction l as [|s l IH]; intros f f' H; cbn in H.
  - inversion H; subst; reflexivity.
  - destruct (run s f) as [g|] eqn:E; [|discriminate]. specialize (IH _ _ H).
    unfold count_stage in *. cbn [filter].
    destruct (stage_eqb IntegralScaling s) eqn:Es.
    + apply stage_eqb_eq in Es; subst s. cbn [length iter]. rewrite IH, (scaling _ _ E). apply iter_shift.
    + rewrite IH. rewrite (sound s f g); auto. intros ->. cbn in Es. discriminate.
Qed.

(* Preprocessing either does this or raises: [None] is the error outcome; a [Some] result always
   carries the scaled meaning *)
Corollary pipeline_sound (l : list stage) (scaled : bool) f f' :
  count_stage IntegralScaling l = (if scaled then 1 else 0) ->
  run_all l f = Some f' -> sem f' = if scaled then scale (sem f) else sem f.
Proof. intros Hc H. rewrite (run_all_sem _ _ _ H), Hc. destruct scaled; reflexivity. Qed.
End Compose.

Print Assumptions pipeline_sound.

(* ---- order predicates used by the regenerated file ---- *)
Fixpoint preceded_by (a b : stage) (prev : option stage) (l : list stage) : bool :=
  (* every occurrence of a is immediately preceded by b *)
  match l with
  | [] => true
  | x :: r => (if stage_eqb a x then match prev with Some p => stage_eqb b p | None => false end else true)
              && preceded_by a b (Some x) r
  end.
Definition is_last (a : stage) (l : list stage) : bool :=
  match rev l with x :: _ => stage_eqb a x | [] => false end.
Definition present (a : stage) (l : list stage) : bool := existsb (stage_eqb a) l.

Definition order_ok (o : opts) (l : list stage) : bool :=
  (* degrees are estimated on the physical integrand, before pullbacks, scaling and geometry lowering *)
  all_before AttachDegrees FunctionPullbacks l && all_before AttachDegrees IntegralScaling l
  && all_before AttachDegrees (GeometryLowering true) l && all_before AttachDegrees (GeometryLowering false) l
  (* compound algebra is lowered before the first derivative expansion; comparisons checked before lowering *)
  && all_before AlgebraLowering ApplyDerivatives l && present AlgebraLowering l
  && all_before ComparisonCheck AlgebraLowering l
  && Bool.eqb (present ComparisonCheck l) (o_complex o)
  && Bool.eqb (present RemoveComplexNodes l) (negb (o_complex o))
  (* derivatives are expanded after the last stage that can introduce or rewrite them *)
  && last_after ApplyDerivatives FunctionPullbacks l
  && last_after ApplyDerivatives (GeometryLowering true) l && last_after ApplyDerivatives (GeometryLowering false) l
  && last_after ApplyDerivatives CancelJacobianProducts l
  (* Jacobian cancellation needs component tensors removed first, and the preserved Jacobians are
     lowered afterwards *)
  && preceded_by CancelJacobianProducts RemoveComponentTensors None l
  && (if present (GeometryLowering true) l then last_after (GeometryLowering false) (GeometryLowering true) l else true)
  && Bool.eqb (present CancelJacobianProducts l) (o_cancel o && o_geometry o)
  && Bool.eqb (present FunctionPullbacks l) (o_pullbacks o)
  && Bool.eqb (present (GeometryLowering false) l || present (GeometryLowering true) l) (o_geometry o)
  && implb (o_remove_ct o) (present RemoveComponentTensors l)
  (* coordinate (shape) derivatives are expanded only after every geometric quantity has been lowered and
     every other derivative expanded: a quantity that is still opaque would be differentiated to zero *)
  && all_before (GeometryLowering true) CoordinateDerivatives l
  && all_before (GeometryLowering false) CoordinateDerivatives l
  && all_before ApplyDerivatives CoordinateDerivatives l
  && all_before CancelJacobianProducts CoordinateDerivatives l
  && all_before FunctionPullbacks CoordinateDerivatives l
  && all_before IntegralScaling CoordinateDerivatives l
  && present CoordinateDerivatives l && present GroupIntegrals l && present BuildIntegralData l
  && all_before GroupIntegrals AttachDegrees l && all_before GroupIntegrals BuildIntegralData l
  (* restrictions and the arity check see the final integrands *)
  && all_before BuildIntegralData (ApplyRestrictions true) l && all_before BuildIntegralData (ApplyRestrictions false) l
  && implb (o_restr o) (present (ApplyRestrictions (o_default_restr o)) l)
  && is_last CheckArity l && all_before IntegralScaling CheckArity l.
