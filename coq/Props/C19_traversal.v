(* C19 - the post-order traversals of ufl/corealg/traversal.py as instances of the machine of
   C19_post.v, and the traversal theorems for ALL trees. *)
Require Import List Arith Lia Bool.
Require Import UFLV.Props.C19_tree UFLV.Props.C19_post.
Import ListNotations.

Definition no_cut : nat -> bool := fun _ => false.
Definition fuel_of (t : tree) : nat := 2 * size t + 1.

(* post_traversal: deps reversed, no visited set *)
Definition post_traversal (t : tree) :=
  run true false no_cut (fuel_of t) (mk [(t, deps_of true t)] [] []).
(* cutoff_post_traversal *)
Definition cutoff_post_traversal (cut : nat -> bool) (t : tree) :=
  run true false cut (fuel_of t) (mk [(t, deps_of true t)] [] []).
(* unique_post_traversal: deps NOT reversed, `visited.add(expr)` before the loop *)
Definition unique_post_traversal (t : tree) (visited : list tree) :=
  run false true no_cut (fuel_of t) (mk [(t, deps_of false t)] (t :: visited) []).
(* cutoff_unique_post_traversal: deps reversed, root not pre-added *)
Definition cutoff_unique_post_traversal (cut : nat -> bool) (t : tree) (visited : list tree) :=
  run true true cut (fuel_of t) (mk [(t, deps_of true t)] visited []).

(* reachability that does not pass through a cut-off node *)
Inductive reach (cut : nat -> bool) : tree -> tree -> Prop :=
| reach_refl : forall t, reach cut t t
| reach_step : forall t c x, cut (label t) = false -> In c (ops t) -> reach cut c x -> reach cut t x.

Lemma creach_reach : forall cut t x, In x (creach cut t) <-> reach cut t x.
Proof.
  intros cut t x. split.
  - revert x. induction t using tree_ind2. intros x Hx. apply creach_inv in Hx.
    destruct Hx as [->|(Hc & c & Hin & Hx)]; [constructor|].
    rewrite Forall_forall in H. eapply reach_step; eauto.
  - induction 1; [apply creach_self|eapply creach_child; eauto].
Qed.

(* ---- plain traversals: closed forms ---- *)
Theorem C19_post_traversal : forall t, exists v, post_traversal t = Some (post_rec true no_cut t, v).
Proof.
  intros t. unfold post_traversal. rewrite run_spec by (unfold fuel_of; lia).
  pose proof (specf_plain true false no_cut eq_refl (size t) t [] (le_n _)) as H.
  destruct (specf true false no_cut (size t) t []) as [o v]. simpl in H. subst. eauto.
Qed.

Theorem C19_cutoff_post_traversal : forall cut t,
  exists v, cutoff_post_traversal cut t = Some (post_rec true cut t, v).
Proof.
  intros cut t. unfold cutoff_post_traversal. rewrite run_spec by (unfold fuel_of; lia).
  pose proof (specf_plain true false cut eq_refl (size t) t [] (le_n _)) as H.
  destruct (specf true false cut (size t) t []) as [o v]. simpl in H. subst. eauto.
Qed.

(* post_rec yields every node after all nodes of its operands' subtrees (children before parent) and
   contains exactly the nodes reachable outside cut-off subtrees *)
Lemma post_rec_In : forall r cut t x, In x (post_rec r cut t) <-> In x (creach cut t).
Proof.
  intros r cut. induction t using tree_ind2. intros x. rewrite Forall_forall in H.
  simpl. rewrite in_app_iff. simpl. destruct (cut l).
  - simpl. tauto.
  - assert (In x (concat (if r then rev (map (post_rec r cut) cs) else map (post_rec r cut) cs))
            <-> In x (concat (map (creach cut) cs))).
    { rewrite in_concat_map. split.
      - intros Hx. apply in_concat in Hx. destruct Hx as (l0 & Hl & Hx).
        assert (In l0 (map (post_rec r cut) cs)) by (destruct r; [apply in_rev|]; auto).
        apply in_map_iff in H0. destruct H0 as (c & <- & Hc). exists c. split; auto. apply H; auto.
      - intros (c & Hc & Hx). apply in_concat. exists (post_rec r cut c). split; [|apply H; auto].
        destruct r; [apply -> in_rev|]; apply in_map; auto. }
    tauto.
Qed.

(* ---- unique traversals ---- *)
(* C19: for every expression tree, unique_post_traversal terminates within fuel 2*size+1, yields no
   node twice, yields exactly the structurally distinct sub-expressions, yields every node after all
   of its operands, and yields the root last. *)
Theorem C19_unique_post : forall t, exists o v,
  unique_post_traversal t [] = Some (o, v) /\
  NoDup o /\
  (forall x, In x o <-> In x (subterms t)) /\
  (forall o1 x o2, o = o1 ++ x :: o2 -> forall c, In c (ops x) -> In c o1) /\
  (exists o', o = o' ++ [t]).
Proof.
  intros t. unfold unique_post_traversal. rewrite run_spec by (unfold fuel_of; lia).
  pose proof (unique_props false true no_cut eq_refl t [t] (or_intror eq_refl)) as H.
  destruct (specf false true no_cut (size t) t [t]) as [o v]. simpl in H.
  destruct H as (H1 & H2 & H3 & H4). exists o, v. repeat split; auto.
  - apply H2. - rewrite <- (creach_nocut no_cut) by reflexivity. apply H2.
  - intros; eapply H3; eauto.
Qed.

(* cut-off variant: exactly the nodes reachable without passing through a cut-off node are yielded
   (nothing below a cut-off node is visited through it), each once, operands of non-cut-off nodes first *)
Theorem C19_cutoff_unique_post : forall cut t, exists o v,
  cutoff_unique_post_traversal cut t [] = Some (o, v) /\
  NoDup o /\
  (forall x, In x o <-> reach cut t x) /\
  (forall o1 x o2, o = o1 ++ x :: o2 -> cut (label x) = false -> forall c, In c (ops x) -> In c o1) /\
  (exists o', o = o' ++ [t]).
Proof.
  intros cut t. unfold cutoff_unique_post_traversal. rewrite run_spec by (unfold fuel_of; lia).
  pose proof (unique_props true true cut eq_refl t [] (or_introl eq_refl)) as H.
  destruct (specf true true cut (size t) t []) as [o v]. simpl in H.
  destruct H as (H1 & H2 & H3 & H4). exists o, v. repeat split; auto.
  - intros Hx. apply creach_reach, H2; auto.
  - intros Hx. apply H2, creach_reach; auto.
Qed.

Print Assumptions C19_unique_post.
Print Assumptions C19_cutoff_unique_post.
Print Assumptions C19_post_traversal.
Print Assumptions C19_cutoff_post_traversal.
