(* C15 - Integral grouping preserves what is integrated on each subdomain.

   Hand-written, unbounded part.  Integrands are elements of an abstract commutative monoid
   (M, add, zero): only their sums matter.  An integral is
       (domain id, integral type id, subdomain id, coordinate-derivative class, metadata, integrand)
   and the functions below are total Gallina models of

     ufl/algorithms/domain_analysis.py :
        group_integrals_by_domain_and_type      -> groups dt_key
        rearrange_integrals_by_single_subdomains -> rearrange
        (grouping by coordinate derivative hash)  -> groups icd            in process_sid
        accumulate_integrands_with_same_metadata -> accumulate  (keyed by  canon (metadata))
        the final merge by common integrand      -> final_merge
        group_form_integrals                     -> group_form_integrals
        build_integral_data                      -> build_integral_data

   Python's dict-of-lists (insertion ordered keys, each list in input order) is [groups].
   [canon] stands for  hash o canonicalize_metadata  and is a Section variable: the sum theorem
   C15_group_sums holds for EVERY canon; the no-merge theorem needs canon to be injective on the
   metadata that occur in the form, and is refuted (C15_no_merge_refuted) for a canon that renders
   numbers with 8 digits, as str(ndarray) does. *)
Require Import List Arith Bool Lia Permutation.
Import ListNotations.
Set Implicit Arguments.

(* ------------------------------------------------------------------------------------------ *)
(* generic: decidable keys, insertion-ordered grouping, insertion sort                         *)

Definition prod_dec (A B : Type) (da : forall a b : A, {a = b} + {a <> b})
  (db : forall a b : B, {a = b} + {a <> b}) : forall p q : A * B, {p = q} + {p <> q}.
Proof. decide equality. Defined.

Section Group.
Variables (A K : Type).
Variable K_dec : forall a b : K, {a = b} + {a <> b}.
Variable key : A -> K.

Definition keqb (a b : K) : bool := if K_dec a b then true else false.
Lemma keqb_true a b : keqb a b = true <-> a = b.
Proof. unfold keqb; destruct (K_dec a b); split; congruence. Qed.
Lemma keqb_refl a : keqb a a = true.
Proof. apply keqb_true; reflexivity. Qed.
Lemma keqb_false a b : keqb a b = false <-> a <> b.
Proof. unfold keqb; destruct (K_dec a b); split; congruence. Qed.

(* keys in order of first occurrence: the key order of a Python dict *)
Fixpoint ukeys (l : list K) : list K :=
  match l with
  | [] => []
  | k :: r => k :: filter (fun k' => negb (keqb k k')) (ukeys r)
  end.

Lemma In_ukeys k l : In k (ukeys l) <-> In k l.
Proof.
  induction l as [|a r IH]; simpl; [tauto|].
  rewrite filter_In, IH. split.
  - intros [H|[H _]]; auto.
  - intros [H|H]; auto. destruct (K_dec a k) as [E|E]; auto.
    right; split; auto. apply negb_true_iff, keqb_false; auto.
Qed.

Lemma NoDup_ukeys l : NoDup (ukeys l).
Proof.
  induction l as [|a r IH]; simpl; constructor.
  - rewrite filter_In. intros [_ H]. rewrite keqb_refl in H; discriminate.
  - apply NoDup_filter; auto.
Qed.

Definition sel (k : K) (l : list A) : list A := filter (fun y => keqb k (key y)) l.
Definition groups (l : list A) : list (K * list A) :=
  map (fun k => (k, sel k l)) (ukeys (map key l)).

Lemma sel_In k l y : In y (sel k l) <-> In y l /\ key y = k.
Proof. unfold sel; rewrite filter_In, keqb_true. intuition congruence. Qed.

Lemma groups_In kg l : In kg (groups l) -> snd kg = sel (fst kg) l /\ exists y, In y l /\ key y = fst kg.
Proof.
  unfold groups; rewrite in_map_iff. intros [k [E H]]; subst kg; simpl. split; auto.
  apply In_ukeys, in_map_iff in H. destruct H as [y [E H]]. exists y; auto.
Qed.

Lemma groups_nonempty kg l : In kg (groups l) -> snd kg <> [].
Proof.
  intros H. destruct (groups_In _ _ H) as [E [y [Hy Ek]]]. rewrite E.
  intros N. assert (In y (sel (fst kg) l)) by (apply sel_In; auto). rewrite N in H0; inversion H0.
Qed.
End Group.

Fixpoint ins (n : nat) (l : list nat) : list nat :=
  match l with
  | [] => [n]
  | m :: r => if n <=? m then n :: l else m :: ins n r
  end.
Fixpoint isort (l : list nat) : list nat :=
  match l with [] => [] | n :: r => ins n (isort r) end.
Lemma ins_perm n l : Permutation (n :: l) (ins n l).
Proof.
  induction l as [|m r IH]; simpl; auto.
  destruct (n <=? m); auto. eapply perm_trans; [apply perm_swap|]. auto.
Qed.
Lemma isort_perm l : Permutation l (isort l).
Proof. induction l; simpl; auto. eapply perm_trans; [|apply ins_perm]. auto. Qed.

(* ------------------------------------------------------------------------------------------ *)
(* subdomain ids                                                                                *)

Inductive sid := SInt (n : nat) | STuple (l : list nat) | SEverywhere.
Inductive osid := OId (n : nat) | OOtherwise.
Definition osid_dec : forall a b : osid, {a = b} + {a <> b}.
Proof. decide equality. apply Nat.eq_dec. Defined.
Definition oseqb := keqb osid_dec.

Definition ids_of (s : sid) : list nat :=
  match s with SInt n => [n] | STuple l => l | SEverywhere => [] end.
Definition is_everywhere (s : sid) : bool :=
  match s with SEverywhere => true | _ => false end.

(* ------------------------------------------------------------------------------------------ *)
Section CMonoid.
Variable M : Type.
Variable zero : M.
Variable add : M -> M -> M.
Hypothesis add_comm : forall a b, add a b = add b a.
Hypothesis add_assoc : forall a b c, add a (add b c) = add (add a b) c.
Hypothesis add_0_l : forall a, add zero a = a.

Lemma add_0_r a : add a zero = a.
Proof. rewrite add_comm; apply add_0_l. Qed.

Definition msum (l : list M) : M := fold_right add zero l.

Lemma msum_app l1 l2 : msum (l1 ++ l2) = add (msum l1) (msum l2).
Proof.
  induction l1; simpl; [symmetry; apply add_0_l|]. rewrite IHl1. apply add_assoc.
Qed.

Lemma msum_perm l1 l2 : Permutation l1 l2 -> msum l1 = msum l2.
Proof.
  induction 1; simpl; auto.
  - congruence.
  - rewrite !add_assoc. f_equal. apply add_comm.
  - congruence.
Qed.

Fixpoint rep (n : nat) (v : M) : M := match n with 0 => zero | S k => add v (rep k v) end.

Definition gate (b : bool) (v : M) : M := if b then v else zero.

Lemma msum_map_add A (f g : A -> M) l :
  msum (map (fun x => add (f x) (g x)) l) = add (msum (map f l)) (msum (map g l)).
Proof.
  induction l; simpl; [symmetry; apply add_0_l|]. rewrite IHl.
  rewrite !add_assoc. f_equal. rewrite <- !add_assoc. f_equal. apply add_comm.
Qed.

Lemma msum_map_zero A (l : list A) : msum (map (fun _ => zero) l) = zero.
Proof. induction l; simpl; auto. rewrite IHl. apply add_0_l. Qed.

Lemma msum_flat_map A B (f : A -> list B) (w : B -> M) l :
  msum (map w (flat_map f l)) = msum (map (fun a => msum (map w (f a))) l).
Proof. induction l; simpl; auto. rewrite map_app, msum_app, IHl. reflexivity. Qed.

Lemma msum_map_ext_in A (f g : A -> M) l :
  (forall x, In x l -> f x = g x) -> msum (map f l) = msum (map g l).
Proof. intros H. f_equal. apply map_ext_in; auto. Qed.

Lemma msum_map_gate A (b : bool) (f : A -> M) l :
  msum (map (fun x => gate b (f x)) l) = gate b (msum (map f l)).
Proof. destruct b; simpl; auto. apply msum_map_zero. Qed.

Lemma msum_map_perm A (f : A -> M) l1 l2 : Permutation l1 l2 -> msum (map f l1) = msum (map f l2).
Proof. intros H. apply msum_perm, Permutation_map, H. Qed.

Section OneHot.
Variable K : Type.
Variable K_dec : forall a b : K, {a = b} + {a <> b}.
Definition inb (k : K) (l : list K) : bool := existsb (keqb K_dec k) l.
Lemma inb_In k l : inb k l = true <-> In k l.
Proof.
  unfold inb; rewrite existsb_exists. split.
  - intros [x [H E]]. apply keqb_true in E. subst; auto.
  - intros H. exists k; split; auto. apply keqb_refl.
Qed.
Lemma msum_onehot k0 v ks : NoDup ks ->
  msum (map (fun k => gate (keqb K_dec k k0) v) ks) = gate (inb k0 ks) v.
Proof.
  induction 1 as [|k ks Hn Hd IH]; simpl; auto.
  rewrite IH. destruct (K_dec k k0) as [E|E].
  - subst. rewrite (proj2 (keqb_true K_dec k0 k0) eq_refl). simpl.
    replace (inb k0 ks) with false; [apply add_0_r|].
    symmetry. apply not_true_is_false. rewrite inb_In. auto.
  - rewrite (proj2 (keqb_false K_dec k k0) E).
    assert (keqb K_dec k0 k = false) as -> by (apply keqb_false; congruence).
    simpl. apply add_0_l.
Qed.
End OneHot.

(* the sum over all groups of a dict-of-lists is the sum over the list *)
Section GroupSum.
Variables (A K : Type).
Variable K_dec : forall a b : K, {a = b} + {a <> b}.
Variable key : A -> K.
Variable F : K -> A -> M.

Lemma sel_sum_gen ks l : NoDup ks -> (forall y, In y l -> In (key y) ks) ->
  msum (map (fun k => msum (map (F k) (sel K_dec key k l))) ks) = msum (map (fun y => F (key y) y) l).
Proof.
  intros Hnd. induction l as [|y r IH]; intros Hin.
  - simpl. apply msum_map_zero.
  - simpl.
    transitivity (msum (map (fun k => add (gate (keqb K_dec k (key y)) (F (key y) y))
                                         (msum (map (F k) (sel K_dec key k r)))) ks)).
    + apply msum_map_ext_in. intros k _. unfold sel; simpl.
      destruct (K_dec k (key y)) as [E|E].
      * rewrite (proj2 (keqb_true K_dec _ _) E). simpl. subst k. reflexivity.
      * rewrite (proj2 (keqb_false K_dec _ _) E). simpl. symmetry; apply add_0_l.
    + rewrite msum_map_add, IH by (intros; apply Hin; simpl; auto).
      rewrite msum_onehot by assumption.
      replace (inb K_dec (key y) ks) with true; [reflexivity|].
      symmetry. apply inb_In, Hin. simpl; auto.
Qed.

Lemma groups_sum l :
  msum (map (fun kg => msum (map (F (fst kg)) (snd kg))) (groups K_dec key l))
  = msum (map (fun y => F (key y) y) l).
Proof.
  unfold groups. rewrite map_map. simpl. apply sel_sum_gen.
  - apply NoDup_ukeys.
  - intros y Hy. apply In_ukeys, in_map, Hy.
Qed.
End GroupSum.

(* ------------------------------------------------------------------------------------------ *)
(* the model                                                                                     *)
Section Model.
Variables (MD CK : Type).
Variable canon : MD -> CK.                   (* hash (canonicalize_metadata md) *)
Variable CK_dec : forall a b : CK, {a = b} + {a <> b}.
Variable M_dec : forall a b : M, {a = b} + {a <> b}.   (* equality of (renumbered) integrands *)

Record integral := mkI { idom : nat; ityp : nat; isid : sid; icd : nat; imd : MD; ival : M }.
(* after rearrange + accumulate: one single subdomain id *)
Record sintegral := mkS { sdom : nat; styp : nat; ssid : osid; scd : nat; smd : MD; sval : M }.
(* output of group_form_integrals: a tuple of subdomain ids *)
Record ointegral := mkO { odom : nat; otyp : nat; osids : list osid; ocd : nat; omd : MD; oval : M }.

Definition dt_dec := prod_dec Nat.eq_dec Nat.eq_dec.
Definition dt_key (x : integral) : nat * nat := (idom x, ityp x).

(* rearrange_integrals_by_single_subdomains *)
Definition explicit_pairs (g : list integral) : list (nat * integral) :=
  flat_map (fun x => map (fun n => (n, x)) (ids_of (isid x))) g.
Definition everywhere_of (g : list integral) : list integral :=
  filter (fun x => is_everywhere (isid x)) g.
Definition declared_ids (g : list integral) : list nat :=
  ukeys Nat.eq_dec (map fst (explicit_pairs g)).
Definition rearrange (append : bool) (g : list integral) : list (osid * list integral) :=
  let E := explicit_pairs g in
  let ev := everywhere_of g in
  map (fun n => (OId n, map snd (sel Nat.eq_dec fst n E) ++ (if append then ev else [])))
      (isort (declared_ids g))                         (* sorted_by_key: ints first, ascending *)
  ++ match ev with [] => [] | _ => [(OOtherwise, ev)] end.

(* accumulate_integrands_with_same_metadata, for integrals sharing (d, t, subdomain id, cd) *)
Definition accumulate (d t : nat) (s : osid) (cd : nat) (g : list integral) : list sintegral :=
  flat_map (fun mg => match snd mg with
                      | [] => []
                      | x :: _ => [mkS d t s cd (imd x) (msum (map ival (snd mg)))]
                      end)
           (groups CK_dec (fun x => canon (imd x)) g).

(* grouping by coordinate derivative, then by metadata *)
Definition process_sid (d t : nat) (s : osid) (ss : list integral) : list sintegral :=
  flat_map (fun cg => accumulate d t s (fst cg) (snd cg)) (groups Nat.eq_dec icd ss).

Definition process_dt (append : bool) (d t : nat) (g : list integral) : list sintegral :=
  flat_map (fun sg => process_sid d t (fst sg) (snd sg)) (rearrange append g).

Definition pre_merge (append : bool) (l : list integral) : list sintegral :=
  flat_map (fun kg => process_dt append (fst (fst kg)) (snd (fst kg)) (snd kg))
           (groups dt_dec dt_key l).

(* the final merge: key (type, domain, meta hash, integrand [which carries the coordinate
   derivative]); subdomain ids are concatenated; metadata_table[key] keeps the LAST metadata *)
Definition fkey_dec := prod_dec (prod_dec (prod_dec (prod_dec Nat.eq_dec Nat.eq_dec) CK_dec) Nat.eq_dec) M_dec.
Definition fkey (s : sintegral) : nat * nat * CK * nat * M :=
  (styp s, sdom s, canon (smd s), scd s, sval s).
Definition final_merge (pre : list sintegral) : list ointegral :=
  flat_map (fun kg => match snd kg with
                      | [] => []
                      | x :: _ => [mkO (sdom x) (styp x) (map ssid (snd kg)) (scd x)
                                       (smd (last (snd kg) x)) (sval x)]
                      end)
           (groups fkey_dec fkey pre).

Definition group_form_integrals (append : bool) (l : list integral) : list ointegral :=
  final_merge (pre_merge append l).

(* build_integral_data: one IntegralData per (domain, type, subdomain id tuple), holding the
   integrals with that key in order *)
Definition idkey_dec := prod_dec (prod_dec Nat.eq_dec Nat.eq_dec) (list_eq_dec osid_dec).
Definition idkey (o : ointegral) : nat * nat * list osid := (odom o, otyp o, osids o).
Definition build_integral_data (os : list ointegral) : list (nat * nat * list osid * list ointegral) :=
  groups idkey_dec idkey os.
Definition integral_data_integrals (ids : list (nat * nat * list osid * list ointegral)) : list ointegral :=
  flat_map (fun kg => snd kg) ids.

(* ------------------------------------------------------------------------------------------ *)
(* specification: what is integrated on (domain d, type t, subdomain s, coordinate derivative
   cd, metadata class ck)                                                                       *)
Record query := mkQ { qd : nat; qt : nat; qs : osid; qcd : nat; qck : CK }.
Definition ckeqb := keqb CK_dec.

(* does some integral of (d,t) mention the integer id n explicitly ? *)
Definition declared (l : list integral) (d t n : nat) : bool :=
  existsb (fun y => (idom y =? d) && (ityp y =? t) && inb Nat.eq_dec n (ids_of (isid y))) l.

Definition matches (q : query) (d t cd : nat) (m : MD) : bool :=
  (d =? qd q) && (t =? qt q) && (cd =? qcd q) && ckeqb (canon m) (qck q).

Definition Wout (q : query) (o : ointegral) : M :=
  gate (matches q (odom o) (otyp o) (ocd o) (omd o)) (rep (count_occ osid_dec (osids o) (qs q)) (oval o)).
Definition WS (q : query) (s : sintegral) : M :=
  gate (matches q (sdom s) (styp s) (scd s) (smd s) && oseqb (ssid s) (qs q)) (sval s).

(* --- final merge --------------------------------------------------------------------------- *)
Lemma rep_count (qs0 : osid) (v : M) (g : list sintegral) :
  rep (count_occ osid_dec (map ssid g) qs0) v = msum (map (fun s => gate (oseqb (ssid s) qs0) v) g).
Proof.
  induction g as [|s g IH]; simpl; auto.
  unfold oseqb, keqb at 1. destruct (osid_dec (ssid s) qs0); simpl.
  - rewrite IH; reflexivity.
  - rewrite IH. symmetry; apply add_0_l.
Qed.

Lemma last_In A (l : list A) d : l <> [] -> In (last l d) l.
Proof.
  induction l as [|a r IH]; [congruence|]. intros _. destruct r as [|b r]; [simpl; auto|].
  right. apply IH. discriminate.
Qed.

Lemma final_merge_sum q pre :
  msum (map (Wout q) (final_merge pre)) = msum (map (WS q) pre).
Proof.
  unfold final_merge. rewrite msum_flat_map.
  etransitivity; [|exact (groups_sum fkey_dec fkey (fun _ s => WS q s) pre)].
  apply msum_map_ext_in. intros [k g] Hin.
  destruct (groups_In _ _ _ _ Hin) as [Eg _]. simpl in Eg.
  assert (Hall : forall s, In s g -> fkey s = k).
  { intros s Hs. rewrite Eg in Hs. apply sel_In in Hs. tauto. }
  clear Eg Hin. cbn [fst snd]. destruct g as [|x r]; [reflexivity|].
  remember (x :: r) as g eqn:Hg.
  assert (Hx : fkey x = k) by (apply Hall; rewrite Hg; simpl; auto).
  assert (Hl : fkey (last g x) = k) by (apply Hall, last_In; rewrite Hg; discriminate).
  cbn [map msum fold_right]. rewrite add_0_r. unfold Wout; cbn [odom otyp osids ocd omd oval].
  rewrite rep_count.
  rewrite <- msum_map_gate. apply msum_map_ext_in. intros s Hs.
  specialize (Hall s Hs). unfold WS, matches, fkey in *.
  destruct k as [[[[kt kd] kc] kcd] kv].
  inversion Hall; inversion Hx; inversion Hl; subst.
  clear Hs.
  repeat match goal with H : ?a = ?b |- _ => first [rewrite H | idtac]; clear H end.
  destruct (_ && _ && _ && _); simpl; auto.
Qed.

(* --- accumulate / process_sid -------------------------------------------------------------- *)
Definition B (q : query) (d t : nat) (x : integral) : M :=
  gate (matches q d t (icd x) (imd x)) (ival x).

Lemma accumulate_sum q d t s cd g :
  msum (map (WS q) (accumulate d t s cd g))
  = msum (map (fun x => gate (oseqb s (qs q)) (gate (matches q d t cd (imd x)) (ival x))) g).
Proof.
  unfold accumulate. rewrite msum_flat_map.
  etransitivity; [|exact (groups_sum CK_dec (fun x => canon (imd x))
               (fun k x => gate (oseqb s (qs q)) (gate ((d =? qd q) && (t =? qt q) && (cd =? qcd q) && ckeqb k (qck q)) (ival x))) g)].
  apply msum_map_ext_in. intros [k mg] Hin.
  destruct (groups_In _ _ _ _ Hin) as [Eg _]. simpl in Eg. cbn [fst snd].
  destruct mg as [|x r]; [reflexivity|].
  assert (Hx : canon (imd x) = k).
  { assert (H : In x (sel CK_dec (fun x => canon (imd x)) k g)) by (rewrite <- Eg; simpl; auto).
    apply sel_In in H. tauto. }
  clear Eg Hin. remember (x :: r) as mg.
  cbn [map msum fold_right]. rewrite add_0_r. unfold WS, matches; cbn [sdom styp ssid scd smd sval]. rewrite Hx.
  rewrite !msum_map_gate.
  destruct ((d =? qd q) && (t =? qt q) && (cd =? qcd q) && ckeqb k (qck q)); destruct (oseqb s (qs q)); simpl; auto.
Qed.

Lemma process_sid_sum q d t s ss :
  msum (map (WS q) (process_sid d t s ss))
  = gate (oseqb s (qs q)) (msum (map (B q d t) ss)).
Proof.
  unfold process_sid. rewrite msum_flat_map.
  rewrite <- msum_map_gate.
  etransitivity; [|exact (groups_sum Nat.eq_dec icd
               (fun cd x => gate (oseqb s (qs q)) (gate (matches q d t cd (imd x)) (ival x))) ss)].
  apply msum_map_ext_in. intros [cd g] _. simpl. apply accumulate_sum.
Qed.

(* --- rearrange ----------------------------------------------------------------------------- *)
Lemma explicit_pairs_sum (G : nat -> integral -> M) g :
  msum (map (fun p => G (fst p) (snd p)) (explicit_pairs g))
  = msum (map (fun x => msum (map (fun n => G n x) (ids_of (isid x)))) g).
Proof.
  unfold explicit_pairs. rewrite msum_flat_map. apply msum_map_ext_in. intros x _.
  rewrite map_map. reflexivity.
Qed.

Lemma msum_ids_count (n0 : nat) (v : M) (ns : list nat) :
  msum (map (fun n => gate (oseqb (OId n) (OId n0)) v) ns) = rep (count_occ Nat.eq_dec ns n0) v.
Proof.
  induction ns as [|n ns IH]; simpl; auto. rewrite IH.
  unfold oseqb, keqb.
  destruct (osid_dec (OId n) (OId n0)) as [E|E]; destruct (Nat.eq_dec n n0) as [E'|E']; simpl;
    try reflexivity; try (exfalso; congruence); try apply add_0_l.
Qed.

Lemma oseqb_OId n n0 : oseqb (OId n) (OId n0) = keqb Nat.eq_dec n n0.
Proof.
  unfold oseqb, keqb.
  destruct (osid_dec (OId n) (OId n0)) as [E|E]; destruct (Nat.eq_dec n n0) as [E'|E'];
    try reflexivity; exfalso; congruence.
Qed.

Lemma rep_gate n b v : rep n (gate b v) = gate b (rep n v).
Proof. destruct b; simpl; auto. induction n; simpl; auto. rewrite IHn. apply add_0_l. Qed.

Lemma msum_filter A (p : A -> bool) (f : A -> M) l :
  msum (map f (filter p l)) = msum (map (fun x => gate (p x) (f x)) l).
Proof.
  induction l as [|a l IH]; simpl; auto. destruct (p a); simpl; rewrite IH; auto.
Qed.

Definition declared_in (g : list integral) (n : nat) : bool := inb Nat.eq_dec n (declared_ids g).

Definition mult_g (append : bool) (dcl : nat -> bool) (x : integral) (s : osid) : nat :=
  match s, isid x with
  | OId n, SEverywhere => if append && dcl n then 1 else 0
  | OId n, sx => count_occ Nat.eq_dec (ids_of sx) n
  | OOtherwise, SEverywhere => 1
  | OOtherwise, _ => 0
  end.

Lemma process_dt_sum q append d t g :
  msum (map (WS q) (process_dt append d t g))
  = msum (map (fun x => gate (matches q d t (icd x) (imd x))
                             (rep (mult_g append (declared_in g) x (qs q)) (ival x))) g).
Proof.
  unfold process_dt. rewrite msum_flat_map.
  transitivity (msum (map (fun sg => gate (oseqb (fst sg) (qs q)) (msum (map (B q d t) (snd sg))))
                          (rearrange append g))).
  { apply msum_map_ext_in. intros sg _. apply process_sid_sum. }
  unfold rearrange. rewrite map_app, msum_app, map_map. cbn [fst snd].
  rewrite <- (msum_map_perm _ (isort_perm (declared_ids g))).
  set (ev := everywhere_of g).
  set (E := explicit_pairs g).
  set (C := msum (map (B q d t) (if append then ev else []))).
  set (G' := fun p : nat * integral => gate (oseqb (OId (fst p)) (qs q)) (B q d t (snd p))).
  (* the 'otherwise' entry *)
  assert (P3 : msum (map (fun sg : osid * list integral =>
                            gate (oseqb (fst sg) (qs q)) (msum (map (B q d t) (snd sg))))
                         match ev with [] => [] | _ :: _ => [(OOtherwise, ev)] end)
               = msum (map (fun x => gate (oseqb OOtherwise (qs q)) (gate (is_everywhere (isid x)) (B q d t x))) g)).
  { rewrite msum_map_gate.
    transitivity (gate (oseqb OOtherwise (qs q)) (msum (map (B q d t) ev))).
    - destruct ev; simpl; [destruct (oseqb _ _); reflexivity | apply add_0_r].
    - f_equal. apply msum_filter. }
  rewrite P3; clear P3.
  (* the integer entries *)
  assert (P1 : msum (map (fun n => gate (oseqb (OId n) (qs q))
                        (msum (map (B q d t) (map snd (sel Nat.eq_dec fst n E) ++ (if append then ev else [])))))
                        (declared_ids g))
             = add (msum (map (fun x => msum (map (fun n => gate (oseqb (OId n) (qs q)) (B q d t x)) (ids_of (isid x)))) g))
                   (msum (map (fun n => gate (oseqb (OId n) (qs q)) C) (declared_ids g)))).
  { transitivity (msum (map (fun n => add (msum (map G' (sel Nat.eq_dec fst n E)))
                                          (gate (oseqb (OId n) (qs q)) C)) (declared_ids g))).
    { apply msum_map_ext_in. intros n _. rewrite map_app, msum_app. fold C.
      destruct (oseqb (OId n) (qs q)) eqn:Eq; simpl.
      - f_equal. rewrite map_map. apply msum_map_ext_in. intros p Hp. apply sel_In in Hp.
        destruct Hp as [_ Hp]. unfold G'. rewrite Hp, Eq. reflexivity.
      - rewrite add_0_r. symmetry.
        etransitivity; [|apply (msum_map_zero (sel Nat.eq_dec fst n E))].
        apply msum_map_ext_in. intros p Hp. apply sel_In in Hp.
        destruct Hp as [_ Hp]. unfold G'. rewrite Hp, Eq. reflexivity. }
    etransitivity; [exact (msum_map_add (fun n => msum (map G' (sel Nat.eq_dec fst n E)))
                                         (fun n => gate (oseqb (OId n) (qs q)) C) (declared_ids g))|].
    f_equal.
    etransitivity; [exact (sel_sum_gen Nat.eq_dec fst (fun _ => G') E (NoDup_ukeys Nat.eq_dec _)
                              (fun y Hy => proj2 (In_ukeys Nat.eq_dec _ _) (in_map fst _ _ Hy)))|].
    exact (explicit_pairs_sum (fun n x => gate (oseqb (OId n) (qs q)) (B q d t x)) g). }
  rewrite P1; clear P1.
  assert (P2 : msum (map (fun n => gate (oseqb (OId n) (qs q)) C) (declared_ids g))
             = msum (map (fun x => gate (match qs q with OId n0 => append && declared_in g n0 | OOtherwise => false end)
                                        (gate (is_everywhere (isid x)) (B q d t x))) g)).
  { rewrite msum_map_gate. rewrite <- (msum_filter (fun x => is_everywhere (isid x)) (B q d t) g).
    fold (everywhere_of g). fold ev.
    destruct (qs q) as [n0|].
    - transitivity (msum (map (fun n => gate (keqb Nat.eq_dec n n0) C) (declared_ids g))).
      { apply msum_map_ext_in. intros n _. rewrite oseqb_OId. reflexivity. }
      rewrite msum_onehot by apply NoDup_ukeys. fold (declared_in g n0).
      unfold C. destruct append; destruct (declared_in g n0); reflexivity.
    - simpl. apply msum_map_zero. }
  rewrite P2; clear P2.
  rewrite <- !msum_map_add. apply msum_map_ext_in. intros x _.
  unfold B, mult_g.
  destruct (qs q) as [n0|].
  - rewrite msum_ids_count, rep_gate.
    assert (oseqb OOtherwise (OId n0) = false) as -> by (apply keqb_false; discriminate).
    destruct (isid x); destruct (matches q d t (icd x) (imd x)); destruct (append && declared_in g n0);
      simpl; rewrite ?add_0_l, ?add_0_r; auto.
  - assert (oseqb OOtherwise OOtherwise = true) as -> by apply keqb_refl.
    transitivity (add (add zero zero) (gate true (gate (is_everywhere (isid x)) (gate (matches q d t (icd x) (imd x)) (ival x))))).
    { f_equal. f_equal. etransitivity; [|apply (msum_map_zero (ids_of (isid x)))].
      apply msum_map_ext_in. intros n _.
      assert (oseqb (OId n) OOtherwise = false) as -> by (apply keqb_false; discriminate). reflexivity. }
    destruct (isid x); destruct (matches q d t (icd x) (imd x)); simpl; rewrite ?add_0_l, ?add_0_r; auto.
Qed.

(* --- the whole of group_form_integrals ------------------------------------------------------- *)
Lemma declared_in_spec g n :
  declared_in g n = existsb (fun y => inb Nat.eq_dec n (ids_of (isid y))) g.
Proof.
  apply eq_true_iff_eq. unfold declared_in, declared_ids. rewrite inb_In, In_ukeys, in_map_iff, existsb_exists.
  unfold explicit_pairs. split.
  - intros [[n' x] [E H]]. simpl in E; subst n'. apply in_flat_map in H. destruct H as [y [Hy H]].
    apply in_map_iff in H. destruct H as [m [E H]]. inversion E; subst. exists x; split; auto. apply inb_In; auto.
  - intros [x [Hx H]]. apply inb_In in H. exists (n, x); split; auto. apply in_flat_map. exists x; split; auto.
    apply in_map_iff. exists n; auto.
Qed.

Lemma declared_sel l d t n :
  declared_in (sel dt_dec dt_key (d, t) l) n = declared l d t n.
Proof.
  rewrite declared_in_spec. apply eq_true_iff_eq. unfold declared. rewrite !existsb_exists. split.
  - intros [y [Hy H]]. apply sel_In in Hy. destruct Hy as [Hy E]. unfold dt_key in E. inversion E.
    exists y; split; auto. rewrite !Nat.eqb_refl. simpl. subst. exact H.
  - intros [y [Hy H]]. apply andb_true_iff in H. destruct H as [H H3]. apply andb_true_iff in H. destruct H as [H1 H2].
    apply Nat.eqb_eq in H1, H2. exists y; split; auto. apply sel_In. split; auto. unfold dt_key; congruence.
Qed.

Definition mult (append : bool) (l : list integral) (x : integral) (s : osid) : nat :=
  mult_g append (declared l (idom x) (ityp x)) x s.
Definition Win (append : bool) (l : list integral) (q : query) (x : integral) : M :=
  gate (matches q (idom x) (ityp x) (icd x) (imd x)) (rep (mult append l x (qs q)) (ival x)).

Lemma pre_merge_sum q append l :
  msum (map (WS q) (pre_merge append l)) = msum (map (Win append l q) l).
Proof.
  unfold pre_merge. rewrite msum_flat_map.
  etransitivity; [|exact (groups_sum dt_dec dt_key (fun _ x => Win append l q x) l)].
  apply msum_map_ext_in. intros [[d t] g] Hin.
  destruct (groups_In _ _ _ _ Hin) as [Eg _]. simpl in Eg. cbn [fst snd].
  rewrite process_dt_sum. apply msum_map_ext_in. intros x Hx.
  rewrite Eg in Hx. apply sel_In in Hx. destruct Hx as [_ Hx]. unfold dt_key in Hx. inversion Hx; subst d t.
  unfold Win, mult. f_equal. f_equal. unfold mult_g.
  destruct (qs q); auto. destruct (isid x); auto. rewrite Eg, declared_sel. reflexivity.
Qed.

(** Main theorem (sum preservation).  For ALL lists of integrals, both values of the append
    option and EVERY key (domain, integral type, subdomain id or 'otherwise', coordinate
    derivative class, metadata class): the sum of the output integrands carrying that key
    (an output integral with subdomain tuple ids counts once per occurrence of the id) equals
    the sum of the input integrands that apply there. *)
Theorem C15_group_sums : forall (append : bool) (l : list integral) (q : query),
  msum (map (Wout q) (group_form_integrals append l)) = msum (map (Win append l q) l).
Proof.
  intros. unfold group_form_integrals. rewrite final_merge_sum. apply pre_merge_sum.
Qed.

(** build_integral_data only regroups: the integrals held by the IntegralData objects have the
    same per-key sums, and every IntegralData holds exactly the integrals with its key. *)
Theorem C15_build_integral_data_sums : forall (os : list ointegral) (q : query),
  msum (map (Wout q) (integral_data_integrals (build_integral_data os))) = msum (map (Wout q) os).
Proof.
  intros. unfold integral_data_integrals, build_integral_data. rewrite msum_flat_map.
  exact (groups_sum idkey_dec idkey (fun _ o => Wout q o) os).
Qed.

Theorem C15_build_integral_data_keys : forall os kg o,
  In kg (build_integral_data os) -> In o (snd kg) ->
  In o os /\ (odom o, otyp o, osids o) = fst kg.
Proof.
  intros os kg o H Ho. destruct (groups_In _ _ _ _ H) as [E _]. rewrite E in Ho.
  apply sel_In in Ho. exact Ho.
Qed.

Corollary C15_form_data_sums : forall append l q,
  msum (map (Wout q) (integral_data_integrals (build_integral_data (group_form_integrals append l))))
  = msum (map (Win append l q) l).
Proof. intros. rewrite C15_build_integral_data_sums. apply C15_group_sums. Qed.

(* --- provenance: the metadata of every output is the metadata of some input ------------------ *)
Lemma rearrange_sub append g sg x : In sg (rearrange append g) -> In x (snd sg) -> In x g.
Proof.
  unfold rearrange. rewrite in_app_iff, in_map_iff. intros [[n [E _]]|H] Hx.
  - subst sg. simpl in Hx. apply in_app_iff in Hx. destruct Hx as [Hx|Hx].
    + apply in_map_iff in Hx. destruct Hx as [[n' y] [E Hy]]. simpl in E; subst y.
      apply sel_In in Hy. destruct Hy as [Hy _].
      unfold explicit_pairs in Hy. apply in_flat_map in Hy. destruct Hy as [z [Hz Hy]].
      apply in_map_iff in Hy. destruct Hy as [m [E _]]. inversion E; subst; auto.
    + destruct append; [|inversion Hx]. apply filter_In in Hx. tauto.
  - destruct (everywhere_of g) eqn:Eev; [inversion H|]. destruct H as [H|[]]. subst sg.
    cbn [snd] in Hx. rewrite <- Eev in Hx. apply filter_In in Hx; tauto.
Qed.

Lemma pre_merge_prov append l s : In s (pre_merge append l) -> exists x, In x l /\ imd x = smd s.
Proof.
  unfold pre_merge. rewrite in_flat_map. intros [[k g] [Hg Hs]]. cbn [fst snd] in Hs.
  destruct (groups_In _ _ _ _ Hg) as [Eg _]. simpl in Eg.
  unfold process_dt in Hs. apply in_flat_map in Hs. destruct Hs as [sg [Hsg Hs]].
  unfold process_sid in Hs. apply in_flat_map in Hs. destruct Hs as [[cd cg] [Hcg Hs]].
  unfold accumulate in Hs. apply in_flat_map in Hs. destruct Hs as [[ck mg] [Hmg Hs]]. cbn [fst snd] in Hs.
  destruct mg as [|x r]; [inversion Hs|]. destruct Hs as [Hs|[]]. subst s. simpl. exists x. split; auto.
  destruct (groups_In _ _ _ _ Hmg) as [Emg _]. simpl in Emg.
  assert (H : In x (sel CK_dec (fun x => canon (imd x)) ck cg)) by (rewrite <- Emg; simpl; auto).
  apply sel_In in H. destruct H as [H _].
  destruct (groups_In _ _ _ _ Hcg) as [Ecg _]. simpl in Ecg. rewrite Ecg in H. apply sel_In in H. destruct H as [H _].
  apply (rearrange_sub _ _ _ _ Hsg) in H. rewrite Eg in H. apply sel_In in H. tauto.
Qed.

Lemma final_merge_prov pre o : In o (final_merge pre) -> exists s, In s pre /\ smd s = omd o.
Proof.
  unfold final_merge. rewrite in_flat_map. intros [[k g] [Hg Ho]]. cbn [fst snd] in Ho.
  destruct (groups_In _ _ _ _ Hg) as [Eg _]. simpl in Eg.
  destruct g as [|x r]; [inversion Ho|]. destruct Ho as [Ho|[]]. subst o. simpl omd.
  exists (last (x :: r) x). split; auto.
  assert (Hsub : forall y, In y (x :: r) -> In y pre).
  { intros y Hy. rewrite Eg in Hy. apply sel_In in Hy. tauto. }
  apply Hsub, last_In. discriminate.
Qed.

Lemma group_form_integrals_prov append l o :
  In o (group_form_integrals append l) -> exists x, In x l /\ imd x = omd o.
Proof.
  intros H. apply final_merge_prov in H. destruct H as [s [Hs E]].
  apply pre_merge_prov in Hs. destruct Hs as [x [Hx E']]. exists x; split; congruence.
Qed.

(* --- no merge across different metadata ------------------------------------------------------ *)
Variable MD_dec : forall a b : MD, {a = b} + {a <> b}.
Definition mdeqb := keqb MD_dec.
Definition matchesM (d0 t0 cd0 : nat) (m0 : MD) (d t cd : nat) (m : MD) : bool :=
  (d =? d0) && (t =? t0) && (cd =? cd0) && mdeqb m m0.
Definition WinM append l d0 t0 (s0 : osid) cd0 m0 (x : integral) : M :=
  gate (matchesM d0 t0 cd0 m0 (idom x) (ityp x) (icd x) (imd x)) (rep (mult append l x s0) (ival x)).
Definition WoutM d0 t0 (s0 : osid) cd0 m0 (o : ointegral) : M :=
  gate (matchesM d0 t0 cd0 m0 (odom o) (otyp o) (ocd o) (omd o)) (rep (count_occ osid_dec (osids o) s0) (oval o)).

(* the statement: for the key whose metadata component is the metadata value m0 ITSELF, the outputs
   labelled m0 integrate exactly the inputs labelled m0 - nothing with another metadata is mixed in *)
Definition no_merge_statement (append : bool) (l : list integral) : Prop :=
  forall d0 t0 s0 cd0 m0,
    msum (map (WoutM d0 t0 s0 cd0 m0) (group_form_integrals append l))
    = msum (map (WinM append l d0 t0 s0 cd0 m0) l).

(* guard = negation of the known-finding class: no two metadata of the form collide under canon *)
Definition canon_inj_on (l : list integral) : Prop :=
  forall x y, In x l -> In y l -> canon (imd x) = canon (imd y) -> imd x = imd y.

Theorem C15_no_merge_partial : forall append l, canon_inj_on l -> no_merge_statement append l.
Proof.
  intros append l Hinj d0 t0 s0 cd0 m0.
  destruct (in_dec MD_dec m0 (map imd l)) as [Hin|Hnin].
  - apply in_map_iff in Hin. destruct Hin as [x0 [E0 Hx0]].
    set (q := mkQ d0 t0 s0 cd0 (canon m0)).
    assert (Heq : forall m, (exists x, In x l /\ imd x = m) -> mdeqb m m0 = ckeqb (canon m) (canon m0)).
    { intros m [x [Hx E]]. unfold mdeqb, ckeqb. destruct (MD_dec m m0) as [Em|Em].
      - rewrite Em, !keqb_refl. reflexivity.
      - rewrite (proj2 (keqb_false MD_dec _ _) Em). symmetry. apply keqb_false. intros Ec.
        apply Em. rewrite <- E, <- E0. apply Hinj; auto. congruence. }
    transitivity (msum (map (Wout q) (group_form_integrals append l))).
    { apply msum_map_ext_in. intros o Ho. unfold WoutM, Wout, matchesM, matches. simpl.
      rewrite (Heq (omd o)); auto. apply group_form_integrals_prov in Ho. destruct Ho as [x [Hx E]]. exists x; auto. }
    rewrite C15_group_sums.
    apply msum_map_ext_in. intros x Hx. unfold WinM, Win, matchesM, matches. simpl.
    rewrite (Heq (imd x)); auto. exists x; auto.
  - transitivity zero.
    + etransitivity; [|apply (msum_map_zero (group_form_integrals append l))].
      apply msum_map_ext_in. intros o Ho. unfold WoutM, matchesM.
      assert (mdeqb (omd o) m0 = false) as ->.
      { apply keqb_false. intros E. apply Hnin. apply group_form_integrals_prov in Ho.
        destruct Ho as [x [Hx E']]. apply in_map_iff. exists x; split; congruence. }
      rewrite andb_false_r. reflexivity.
    + symmetry. etransitivity; [|apply (msum_map_zero l)].
      apply msum_map_ext_in. intros x Hx. unfold WinM, matchesM.
      assert (mdeqb (imd x) m0 = false) as ->.
      { apply keqb_false. intros E. apply Hnin. apply in_map_iff. exists x; split; auto. }
      rewrite andb_false_r. reflexivity.
Qed.

(** no merge, under the hypothesis that the canonicalisation key is injective *)
Theorem C15_no_merge : (forall m m', canon m = canon m' -> m = m') ->
  forall append l, no_merge_statement append l.
Proof. intros Hinj append l. apply C15_no_merge_partial. intros x y _ _. apply Hinj. Qed.

End Model.
End CMonoid.

(* ------------------------------------------------------------------------------------------ *)
(* refutation for a canonicalisation that is not injective: metadata are numbers, canon keeps all
   but the last digit (str(ndarray) keeps 8 significant digits).  Two integrals over the same
   subdomain with metadata 1231 and 1232 and integrands 1 and 10 are summed into ONE output
   labelled 1231: the key (.., 1232) integrates 0 instead of 10.                                *)
Definition refute_canon (m : nat) : nat := m / 10.
Definition refute_input : list (integral nat nat) :=
  [mkI 0 0 (SInt 1) 0 1231 1; mkI 0 0 (SInt 1) 0 1232 10].

Theorem C15_no_merge_refuted :
  exists (canon : nat -> nat) (l : list (integral nat nat)),
    ~ no_merge_statement 0 Nat.add canon Nat.eq_dec Nat.eq_dec Nat.eq_dec true l.
Proof.
  exists refute_canon, refute_input. intros H.
  specialize (H 0 0 (OId 1) 0 1232). vm_compute in H. discriminate H.
Qed.

Print Assumptions C15_group_sums.
Print Assumptions C15_form_data_sums.
Print Assumptions C15_no_merge_partial.
Print Assumptions C15_no_merge.
Print Assumptions C15_no_merge_refuted.
