(* C13 - expr_equals (ufl/exprequals.py) and compute_expr_hash on expression trees.

   [tree]: a node has a typecode, a terminal payload (only meaningful for terminal typecodes) and
   operands.  [seq] is the SPECIFICATION of ==: same class, terminals equal by their class's ==
   ([teq], proved an equivalence per class in C13_spec.v / Gen), operands pairwise equal.
   [expr_equals] is the IMPLEMENTATION's algorithm: type/hash cut-off, identity shortcuts, the explicit
   stack loop with the `equal_pairs` memo, typecode cut-off on operands.  Object identity (`is`) is an
   abstract oracle [same]/[same_ops]/memo lookup that is only assumed SOUND (identical objects are the
   same tree) - the theorems hold whatever sharing the Python heap has.

   Theorems (all trees, all hash functions, all identity oracles):
     C13_expr_equals_spec   : expr_equals s o = true <-> seq s o = true
     C13_seq_equivalence    : seq is reflexive, symmetric, transitive
     C13_equal_interchange  : seq s o -> same hash, same repr, same shape/free-index data
     C13_compare_pure       : the operand-pointer swing performed by a successful comparison
                              (self.ufl_operands = other.ufl_operands) leaves a tree that is seq-equal
                              to the old one, with the same repr and hash. *)

From Coq Require Import List Bool Arith Lia.
Import ListNotations.

Inductive tree := Node (tc pl : nat) (ops : list tree).

Definition tc t := match t with Node c _ _ => c end.
Definition pl t := match t with Node _ p _ => p end.
Definition ops t := match t with Node _ _ o => o end.

Fixpoint size (t : tree) : nat :=
  match t with Node _ _ o => S ((fix go l := match l with [] => 0 | x :: l' => size x + go l' end) o) end.
Definition sizes (l : list tree) := fold_right (fun x n => size x + n) 0 l.
Lemma size_eq c p o : size (Node c p o) = S (sizes o).
Proof. simpl. f_equal. Qed.

(* induction principle with the IH for all operands *)
Lemma tree_ind' (P : tree -> Prop) :
  (forall c p o, Forall P o -> P (Node c p o)) -> forall t, P t.
Proof.
  intro Hn. fix IH 1. intros [c p o]. apply Hn.
  induction o as [|x o IHo]; constructor; auto.
Qed.

Section Equals.
  Variable is_term : nat -> bool.           (* typecode -> _ufl_is_terminal_ *)
  Variable teq : nat -> nat -> bool.        (* terminal == (same class), on payloads *)
  Hypothesis teq_refl : forall p, teq p p = true.
  Hypothesis teq_sym : forall p q, teq p q = true -> teq q p = true.
  Hypothesis teq_trans : forall p q r, teq p q = true -> teq q r = true -> teq p r = true.

  (* ---------------- specification: structural equality ---------------- *)
  Fixpoint seq (a b : tree) : bool :=
    match a, b with
    | Node ca pa oa, Node cb pb ob =>
        (ca =? cb) &&
        (if is_term ca then teq pa pb
         else (fix go (l m : list tree) : bool :=
                 match l, m with
                 | [], [] => true
                 | x :: l', y :: m' => seq x y && go l' m'
                 | _, _ => false
                 end) oa ob)
    end.

  Fixpoint seql (l m : list tree) : bool :=
    match l, m with
    | [], [] => true
    | x :: l', y :: m' => seq x y && seql l' m'
    | _, _ => false
    end.

  Lemma seq_unfold ca pa oa cb pb ob :
    seq (Node ca pa oa) (Node cb pb ob) =
    (ca =? cb) && (if is_term ca then teq pa pb else seql oa ob).
  Proof.
    reflexivity.
  Qed.

  Lemma seql_spec l m : seql l m = true <->
    length l = length m /\ forall c d, In (c, d) (combine l m) -> seq c d = true.
  Proof.
    revert m. induction l as [|x l IH]; destruct m as [|y m]; simpl; split.
    - intros _. split; [reflexivity | intros c d []].
    - auto.
    - discriminate.
    - intros [E _]; discriminate.
    - discriminate.
    - intros [E _]; discriminate.
    - intro E. apply andb_prop in E as [E1 E2]. apply IH in E2 as [L F]. split; [congruence|].
      intros c d [X|X]; [inversion X; subst; auto | auto].
    - intros [L F]. apply andb_true_intro. split; [apply F; auto|]. apply IH. split; [congruence|].
      intros; apply F; auto.
  Qed.

  Lemma seq_tc a b : seq a b = true -> tc a = tc b.
  Proof. destruct a, b. rewrite seq_unfold. intro E. apply andb_prop in E as [E _]. apply Nat.eqb_eq in E. auto. Qed.

  Lemma seq_refl : forall a, seq a a = true.
  Proof.
    apply tree_ind'. intros c p o F. rewrite seq_unfold, Nat.eqb_refl. simpl.
    destruct (is_term c); auto.
    induction F; simpl; auto. rewrite H, IHF. reflexivity.
  Qed.

  Lemma seq_sym : forall a b, seq a b = true -> seq b a = true.
  Proof.
    apply (tree_ind' (fun a => forall b, seq a b = true -> seq b a = true)).
    intros c p o F [cb pb ob]. rewrite !seq_unfold. intro E. apply andb_prop in E as [E1 E2].
    apply Nat.eqb_eq in E1. subst cb. rewrite Nat.eqb_refl. simpl.
    destruct (is_term c); auto.
    revert ob E2. induction F; destruct ob; simpl; auto; try discriminate.
    intro E. apply andb_prop in E as [E3 E4]. rewrite (H _ E3), (IHF _ E4). reflexivity.
  Qed.

  Lemma seq_trans : forall a b c, seq a b = true -> seq b c = true -> seq a c = true.
  Proof.
    apply (tree_ind' (fun a => forall b c, seq a b = true -> seq b c = true -> seq a c = true)).
    intros ca pa oa F [cb pb ob] [cc pc oc]. rewrite !seq_unfold. intros E1 E2.
    apply andb_prop in E1 as [A1 A2]. apply andb_prop in E2 as [B1 B2].
    apply Nat.eqb_eq in A1, B1. subst. rewrite Nat.eqb_refl. simpl.
    destruct (is_term cc); [eauto|].
    revert ob oc A2 B2. induction F; destruct ob, oc; simpl; auto; try discriminate.
    intros A B. apply andb_prop in A as [A3 A4]. apply andb_prop in B as [B3 B4].
    rewrite (H _ _ A3 B3), (IHF _ _ A4 B4). reflexivity.
  Qed.

  Theorem C13_seq_equivalence :
    (forall a, seq a a = true) /\
    (forall a b, seq a b = true -> seq b a = true) /\
    (forall a b c, seq a b = true -> seq b c = true -> seq a c = true).
  Proof. split; [exact seq_refl | split; [exact seq_sym | exact seq_trans]]. Qed.

  (* ---------------- compute_expr_hash / repr / shape as folds ---------------- *)
  Section Folds.
    Variable X : Type.
    Variable leaf : nat -> nat -> X.            (* terminal: typecode, payload *)
    Variable comb : nat -> list X -> X.         (* operator: typecode, operand results *)
    Hypothesis leaf_ok : forall c p q, teq p q = true -> leaf c p = leaf c q.

    Fixpoint fold (t : tree) : X :=
      match t with
      | Node c p o => if is_term c then leaf c p else comb c (map fold o)
      end.

    Lemma fold_seq : forall a b, seq a b = true -> fold a = fold b.
    Proof.
      apply (tree_ind' (fun a => forall b, seq a b = true -> fold a = fold b)).
      intros c p o F [cb pb ob]. rewrite seq_unfold. intro E. apply andb_prop in E as [E1 E2].
      apply Nat.eqb_eq in E1. subst cb. simpl. destruct (is_term c); [auto|].
      f_equal. revert ob E2. induction F; destruct ob; simpl; auto; try discriminate.
      intro E. apply andb_prop in E as [E3 E4]. f_equal; auto.
    Qed.
  End Folds.

  (* ---------------- the implementation's algorithm ---------------- *)
  Variable H : Type.
  Variable heq : H -> H -> bool.
  Hypothesis heq_refl : forall h, heq h h = true.
  Variable thash : nat -> nat -> H.                (* Terminal._ufl_compute_hash_ *)
  Variable hcomb : nat -> list H -> H.             (* hash((typecode, *operand hashes)) *)
  Hypothesis thash_ok : forall c p q, teq p q = true -> thash c p = thash c q.
  Definition hash := fold H thash hcomb.

  (* object identity: sound oracles *)
  Variable same : tree -> tree -> bool.            (* s is o *)
  Variable same_ops : tree -> tree -> bool.        (* s.ufl_operands is o.ufl_operands *)
  Hypothesis same_ok : forall a b, same a b = true -> a = b.
  Hypothesis same_ops_ok : forall a b, same_ops a b = true -> ops a = ops b.

  Definition memo_mem (x y : tree) (memo : list (tree * tree)) : bool :=
    existsb (fun p => same (fst p) x && same (snd p) y) memo.

  Lemma memo_mem_in x y memo : memo_mem x y memo = true -> In (x, y) memo.
  Proof.
    unfold memo_mem. intro E. apply existsb_exists in E as ([a b] & I & E). simpl in E.
    apply andb_prop in E as [E1 E2]. apply same_ok in E1, E2. subst. exact I.
  Qed.

  (* the `for s, o in zip(so, oo)` loop; None = `return False`; acc = pairs appended to `left` *)
  Fixpoint scan (ps : list (tree * tree)) (memo acc : list (tree * tree)) : option (list (tree * tree)) :=
    match ps with
    | [] => Some acc
    | (x, y) :: ps' =>
        if negb (tc x =? tc y) then None
        else if same x y then scan ps' memo acc
        else if memo_mem x y memo then scan ps' memo acc
        else scan ps' memo ((x, y) :: acc)
    end.

  (* the `while left:` loop; head of [left] = top of the stack *)
  Fixpoint loop (fuel : nat) (left memo : list (tree * tree)) : bool :=
    match fuel with
    | 0 => false
    | S f =>
        match left with
        | [] => true
        | (s, o) :: rest =>
            if is_term (tc s) then
              if teq (pl s) (pl o) then loop f rest ((s, o) :: memo) else false
            else if same_ops s o then loop f rest memo
            else if negb (length (ops s) =? length (ops o)) then false
            else match scan (combine (ops s) (ops o)) memo [] with
                 | None => false
                 | Some acc => loop f (acc ++ rest) ((s, o) :: memo)
                 end
        end
    end.

  Definition expr_equals (s o : tree) : bool :=
    if negb (tc s =? tc o) || negb (heq (hash s) (hash o)) then false
    else if same s o || same_ops s o then true
    else loop (S (S (size s))) [(s, o)] [].

  (* ---------------- soundness ---------------- *)
  Definition good (p : tree * tree) : Prop := seq (fst p) (snd p) = true.

  Definition lc (M L : list (tree * tree)) (p : tree * tree) : Prop :=
    let (x, y) := p in
    tc x = tc y /\
    (if is_term (tc x) then teq (pl x) (pl y) = true
     else length (ops x) = length (ops y) /\
          forall c d, In (c, d) (combine (ops x) (ops y)) ->
             good (c, d) \/ In (c, d) M \/ In (c, d) L).

  Definition Inv (M L : list (tree * tree)) : Prop :=
    (forall p, In p M -> lc M L p) /\ (forall p, In p L -> tc (fst p) = tc (snd p)).

  Lemma good_of_ops x y : is_term (tc x) = false -> tc x = tc y -> ops x = ops y -> good (x, y).
  Proof.
    destruct x as [cx px ox], y as [cy py oy]. simpl. intros T E O. subst. unfold good. simpl fst; simpl snd.
    rewrite seq_unfold, Nat.eqb_refl, T. simpl. apply seql_spec. split; auto.
    intros c d I. assert (c = d); [|subst; apply seq_refl].
    clear -I. induction oy; simpl in I; [tauto|]. destruct I as [I|I]; [inversion I; auto | auto].
  Qed.

  Lemma good_of_lc M x y : lc M [] (x, y) ->
    (forall c d, In (c, d) M -> size c < size x -> good (c, d)) -> good (x, y).
  Proof.
    destruct x as [cx px ox], y as [cy py oy]. unfold lc, good. simpl fst; simpl snd. simpl tc; simpl pl; simpl ops.
    intros [E B] IH. subst cy. rewrite seq_unfold, Nat.eqb_refl. simpl.
    destruct (is_term cx); auto. destruct B as [L F]. apply seql_spec. split; auto.
    intros c d I. destruct (F c d I) as [G|[G|G]]; [exact G | | destruct G].
    apply IH; auto. rewrite size_eq.
    assert (In c ox) by (eapply in_combine_l; eauto).
    clear -H0. induction ox; simpl in *; [tauto|]. destruct H0; [subst; lia | specialize (IHox H); lia].
  Qed.

  Lemma closed_memo_good M : (forall p, In p M -> lc M [] p) -> forall p, In p M -> good p.
  Proof.
    intros C.
    assert (G : forall n p, In p M -> size (fst p) < n -> good p).
    { induction n; intros [x y] I S; [lia|]. simpl in S.
      apply (good_of_lc M); [apply C; auto|]. intros c d I' S'. apply (IHn (c, d)); auto. simpl. lia. }
    intros p I. apply (G (S (size (fst p)))); auto.
  Qed.

  Lemma lc_mono M L M' L' p :
    (forall q, In q M -> In q M') ->
    (forall q, In q L -> good q \/ In q M' \/ In q L') ->
    lc M L p -> lc M' L' p.
  Proof.
    destruct p as [x y]. unfold lc. intros HM HL [E B]. split; auto.
    destruct (is_term (tc x)); auto. destruct B as [Ln F]. split; auto.
    intros c d I. destruct (F c d I) as [G|[G|G]]; auto.
  Qed.

  Lemma scan_spec ps memo : forall acc res,
    scan ps memo acc = Some res ->
    (forall q, In q acc -> In q res) /\
    (forall q, In q res -> In q acc \/ (In q ps /\ tc (fst q) = tc (snd q))) /\
    (forall c d, In (c, d) ps -> tc c = tc d /\ (good (c, d) \/ In (c, d) memo \/ In (c, d) res)).
  Proof.
    induction ps as [|[x y] ps IH]; simpl; intros acc res E.
    - inversion E; subst. repeat split; auto; intros; tauto.
    - destruct (tc x =? tc y) eqn:T; simpl in E; [|discriminate]. apply Nat.eqb_eq in T.
      destruct (same x y) eqn:Sm; [|destruct (memo_mem x y memo) eqn:Mm].
      + apply same_ok in Sm. subst y. destruct (IH _ _ E) as (A & B & C). repeat split; auto.
        * intros q I. destruct (B q I) as [|[? ?]]; auto.
        * destruct H0 as [X|X]; [inversion X; subst; auto | apply C; auto].
        * destruct H0 as [X|X]; [inversion X; subst; left; apply seq_refl | apply C; auto].
      + apply memo_mem_in in Mm. destruct (IH _ _ E) as (A & B & C). repeat split; auto.
        * intros q I. destruct (B q I) as [|[? ?]]; auto.
        * destruct H0 as [X|X]; [inversion X; subst; auto | apply C; auto].
        * destruct H0 as [X|X]; [inversion X; subst; auto | apply C; auto].
      + destruct (IH _ _ E) as (A & B & C). repeat split.
        * intros q I. apply A. right; auto.
        * intros q I. destruct (B q I) as [[X|X]|[? ?]]; auto. subst q. right. split; auto.
        * destruct H0 as [X|X]; [inversion X; subst; auto | apply C; auto].
        * destruct H0 as [X|X]; [inversion X; subst; right; right; apply A; left; auto | apply C; auto].
  Qed.

  Lemma loop_sound : forall fuel L M, Inv M L -> loop fuel L M = true ->
    forall p, In p (M ++ L) -> good p.
  Proof.
    induction fuel; simpl; intros L M [IM IL] E; [discriminate|].
    destruct L as [|[s o] rest].
    - intros p I. rewrite app_nil_r in I. eapply closed_memo_good; eauto.
    - assert (Tso : tc s = tc o) by (apply (IL (s, o)); left; auto).
      destruct (is_term (tc s)) eqn:Ts.
      + destruct (teq (pl s) (pl o)) eqn:Te; [|discriminate].
        assert (I' : Inv ((s, o) :: M) rest).
        { split.
          - intros p [X|X].
            + subst p. unfold lc. rewrite Ts. auto.
            + eapply lc_mono; [| |apply IM; auto]; simpl; auto.
              intros q [Y|Y]; [subst q; auto | auto].
          - intros p I. apply IL. right; auto. }
        intros p I. apply (IHfuel _ _ I' E). apply in_app_or in I as [I|[I|I]];
          apply in_or_app; simpl; auto.
      + destruct (same_ops s o) eqn:So.
        * apply same_ops_ok in So.
          assert (Gso : good (s, o)) by (apply good_of_ops; auto).
          assert (I' : Inv M rest).
          { split.
            - intros p X. eapply lc_mono; [| |apply IM; auto]; simpl; auto.
              intros q [Y|Y]; [subst q; auto | auto].
            - intros p I. apply IL. right; auto. }
          intros p I. apply in_app_or in I as [I|[I|I]].
          -- apply (IHfuel _ _ I' E). apply in_or_app; auto.
          -- subst p; auto.
          -- apply (IHfuel _ _ I' E). apply in_or_app; auto.
        * destruct (length (ops s) =? length (ops o)) eqn:Ln; simpl in E; [|discriminate].
          apply Nat.eqb_eq in Ln.
          destruct (scan (combine (ops s) (ops o)) M []) as [acc|] eqn:Sc; [|discriminate].
          destruct (scan_spec _ _ _ _ Sc) as (A & B & C).
          assert (I' : Inv ((s, o) :: M) (acc ++ rest)).
          { split.
            - intros p [X|X].
              + subst p. unfold lc. rewrite Ts. split; auto. split; auto.
                intros c d I. destruct (C c d I) as (_ & [G|[G|G]]); auto.
                * right; left; right; auto.
                * right; right; apply in_or_app; auto.
              + eapply lc_mono; [| |apply IM; auto]; simpl; auto.
                intros q [Y|Y]; [subst q; auto | right; right; apply in_or_app; auto].
            - intros p I. apply in_app_or in I as [I|I].
              + destruct (B p I) as [[]|[_ T]]; auto.
              + apply IL. right; auto. }
          intros p I. apply (IHfuel _ _ I' E). apply in_app_or in I as [I|[I|I]].
          -- apply in_or_app; left; right; auto.
          -- apply in_or_app; left; left; auto.
          -- apply in_or_app; right; apply in_or_app; auto.
  Qed.

  (* ---------------- completeness ---------------- *)
  Definition msr (L : list (tree * tree)) := fold_right (fun p n => size (fst p) + n) 0 L.

  Lemma msr_app a b : msr (a ++ b) = msr a + msr b.
  Proof. induction a; simpl; auto. rewrite IHa. lia. Qed.

  Lemma msr_combine l m : msr (combine l m) <= sizes l.
  Proof. revert m. induction l; destruct m; simpl; try lia. specialize (IHl m). lia. Qed.

  Lemma scan_complete ps memo : forall acc,
    (forall c d, In (c, d) ps -> good (c, d)) ->
    exists res, scan ps memo acc = Some res /\ msr res <= msr acc + msr ps /\
                forall q, In q res -> In q acc \/ In q ps.
  Proof.
    induction ps as [|[x y] ps IH]; simpl; intros acc G.
    - exists acc. repeat split; auto. lia.
    - assert (T : tc x = tc y) by (apply seq_tc; apply (G x y); auto).
      rewrite T, Nat.eqb_refl. simpl.
      assert (G' : forall c d, In (c, d) ps -> good (c, d)) by (intros; apply G; auto).
      destruct (same x y); [|destruct (memo_mem x y memo)].
      + destruct (IH acc G') as (res & E & Ms & I). exists res. repeat split; auto; [lia|].
        intros q Q. destruct (I q Q); auto.
      + destruct (IH acc G') as (res & E & Ms & I). exists res. repeat split; auto; [lia|].
        intros q Q. destruct (I q Q); auto.
      + destruct (IH ((x, y) :: acc) G') as (res & E & Ms & I). exists res. repeat split; auto.
        * simpl in Ms. lia.
        * intros q Q. destruct (I q Q) as [[X|X]|X]; auto.
  Qed.

  Lemma loop_complete : forall fuel L M,
    (forall p, In p L -> good p) -> msr L < fuel -> loop fuel L M = true.
  Proof.
    induction fuel; intros L M G Ms; [lia|]. simpl.
    destruct L as [|[s o] rest]; auto.
    assert (Gso : good (s, o)) by (apply G; left; auto).
    assert (Gr : forall p, In p rest -> good p) by (intros; apply G; right; auto).
    simpl in Ms. destruct s as [cs ps os], o as [co po oo]. unfold good in Gso. simpl fst in *; simpl snd in *.
    rewrite seq_unfold in Gso. apply andb_prop in Gso as [E1 E2]. apply Nat.eqb_eq in E1. subst co.
    simpl tc; simpl pl; simpl ops. rewrite size_eq in Ms.
    destruct (is_term cs) eqn:Ts.
    - rewrite E2. apply IHfuel; auto. lia.
    - destruct (same_ops (Node cs ps os) (Node cs po oo)); [apply IHfuel; auto; lia|].
      apply seql_spec in E2 as [Ln F]. rewrite Ln, Nat.eqb_refl. simpl.
      destruct (scan_complete (combine os oo) M [] F) as (res & E & Mr & I). rewrite E.
      apply IHfuel.
      + intros p Q. apply in_app_or in Q as [Q|Q]; auto.
        destruct (I p Q) as [[]|X]. destruct p. apply F; auto.
      + rewrite msr_app. simpl in Mr. pose proof (msr_combine os oo). lia.
  Qed.

  Lemma hash_seq a b : seq a b = true -> hash a = hash b.
  Proof. apply fold_seq. exact thash_ok. Qed.

  (* MAIN THEOREM: the implementation's == on operators decides structural equality.
     (For a TERMINAL self the function would accept any other terminal of the same class and hash,
     because Terminal.ufl_operands is the one shared tuple (): `self.ufl_operands is other.ufl_operands`
     holds; this is why every terminal class overrides __eq__, and why [py_eq] below dispatches.) *)
  Theorem C13_expr_equals_spec : forall s o, is_term (tc s) = false ->
    (expr_equals s o = true <-> seq s o = true).
  Proof.
    intros s o Ts. unfold expr_equals. split.
    - destruct (tc s =? tc o) eqn:T; [|cbn [negb orb]; discriminate]. apply Nat.eqb_eq in T.
      destruct (heq (hash s) (hash o)); [|cbn [negb orb]; discriminate].
      cbn [negb orb].
      destruct (same s o) eqn:Sm; cbn [orb].
      + intros _. apply same_ok in Sm. subst. apply seq_refl.
      + destruct (same_ops s o) eqn:So.
        * intros _. apply same_ops_ok in So. apply (good_of_ops s o); auto.
        * intro E.
          assert (I : Inv [] [(s, o)]).
          { split; [intros p []|]. intros p [X|[]]. subst p. auto. }
          apply (loop_sound _ _ _ I E (s, o)). simpl. auto.
    - intro E. pose proof (seq_tc _ _ E) as T. rewrite T, Nat.eqb_refl. cbn [negb orb].
      rewrite (hash_seq _ _ E), heq_refl. cbn [negb orb].
      destruct (same s o || same_ops s o); auto.
      apply loop_complete.
      + intros p [X|[]]. subst p. exact E.
      + simpl. lia.
  Qed.

  (* Python's `a == b` on expressions: terminal classes use their own __eq__ (class guard + teq),
     operators use expr_equals *)
  Definition py_eq (s o : tree) : bool :=
    if is_term (tc s) then (tc s =? tc o) && teq (pl s) (pl o) else expr_equals s o.

  Theorem C13_py_eq_spec : forall s o, py_eq s o = true <-> seq s o = true.
  Proof.
    intros s o. unfold py_eq. destruct (is_term (tc s)) eqn:Ts.
    - destruct s as [cs ps os], o as [co po oo]. rewrite seq_unfold. simpl in *. rewrite Ts. tauto.
    - apply C13_expr_equals_spec; auto.
  Qed.

  Theorem C13_py_eq_equivalence :
    (forall a, py_eq a a = true) /\
    (forall a b, py_eq a b = true -> py_eq b a = true) /\
    (forall a b c, py_eq a b = true -> py_eq b c = true -> py_eq a c = true).
  Proof.
    repeat split; intros.
    - apply C13_py_eq_spec, seq_refl.
    - apply C13_py_eq_spec, seq_sym, C13_py_eq_spec; auto.
    - apply C13_py_eq_spec. eapply seq_trans; apply C13_py_eq_spec; eauto.
  Qed.

  (* equal expressions are interchangeable: every attribute computed bottom-up from the class, the
     terminal data (up to the terminal's ==) and the operands' attributes is equal: hash, repr string,
     shape / free indices / index dimensions, signature data, value *)
  Theorem C13_equal_interchange :
    forall (X : Type) (leaf : nat -> nat -> X) (comb : nat -> list X -> X),
      (forall c p q, teq p q = true -> leaf c p = leaf c q) ->
      forall a b, py_eq a b = true -> fold X leaf comb a = fold X leaf comb b.
  Proof. intros X leaf comb L a b E. apply fold_seq; auto. apply C13_py_eq_spec; auto. Qed.

  Corollary C13_equal_hash : forall a b, py_eq a b = true -> hash a = hash b.
  Proof. intros. apply hash_seq, C13_py_eq_spec; auto. Qed.

  (* ---------------- comparing is pure up to == ---------------- *)
  (* a successful expr_equals ends with `self.ufl_operands = other.ufl_operands` *)
  Definition swing (s o : tree) : tree := Node (tc s) (pl s) (ops o).

  Theorem C13_compare_pure : forall s o, is_term (tc s) = false -> expr_equals s o = true ->
    seq (swing s o) s = true /\
    forall (X : Type) (leaf : nat -> nat -> X) (comb : nat -> list X -> X),
      (forall c p q, teq p q = true -> leaf c p = leaf c q) ->
      fold X leaf comb (swing s o) = fold X leaf comb s.
  Proof.
    intros s o Ts E. apply C13_expr_equals_spec in E; auto.
    assert (Sq : seq (swing s o) s = true).
    { apply seq_sym. destruct s as [cs ps os], o as [co po oo]. unfold swing. cbn [tc pl ops] in *.
      rewrite seq_unfold in E. rewrite seq_unfold. apply andb_prop in E as [E1 E2]. rewrite Nat.eqb_refl.
      rewrite Ts in *. exact E2. }
    split; auto. intros. apply fold_seq; auto.
  Qed.
End Equals.

(* ------------------------------------------------------------------------------------------- *)
(* A heap of expression objects and sequences of comparisons.  Cell a holds (typecode, payload,
   operand addresses); operands have smaller addresses (expressions are built bottom-up).  `==` on
   two addresses runs expr_equals on the trees they denote and, when it answers True on operators,
   swings the operand pointers of the left object to those of the right one.  For every sequence of
   comparisons and every address, the denoted tree stays seq-equal to the original one, hence keeps
   its repr, hash, shape and every other bottom-up attribute. *)
Section Heap.
  Variable is_term : nat -> bool.
  Variable teq : nat -> nat -> bool.
  Hypothesis teq_refl : forall p, teq p p = true.
  Hypothesis teq_sym : forall p q, teq p q = true -> teq q p = true.
  Hypothesis teq_trans : forall p q r, teq p q = true -> teq q r = true -> teq p r = true.

  Notation seq := (seq is_term teq).

  Record cell := { ctc : nat; cpl : nat; cops : list nat }.
  Definition heap := list cell.        (* address = position *)

  (* the tree denoted by address a; fuel = a + 1 suffices when operands have smaller addresses *)
  Fixpoint deep (fuel : nat) (h : heap) (a : nat) : tree :=
    match fuel with
    | 0 => Node 0 0 []
    | S f => match nth_error h a with
             | None => Node 0 0 []
             | Some c => Node (ctc c) (cpl c) (map (deep f h) (cops c))
             end
    end.

  Definition wfh (h : heap) : Prop :=
    forall a c, nth_error h a = Some c -> forall b, In b (cops c) -> b < a.

  Lemma deep_fuel h : wfh h -> forall f a, a < f -> forall g, a < g -> deep f h a = deep g h a.
  Proof.
    intro W. induction f; intros a L g Lg; [lia|]. destruct g; [lia|]. simpl.
    destruct (nth_error h a) eqn:E; auto. f_equal. apply map_ext_in. intros b I.
    pose proof (W a c E b I). apply IHf; lia.
  Qed.

  Definition val (h : heap) (a : nat) : tree := deep (S a) h a.

  Lemma val_unfold h a c : wfh h -> nth_error h a = Some c ->
    val h a = Node (ctc c) (cpl c) (map (val h) (cops c)).
  Proof.
    intros W E. unfold val at 1. simpl. rewrite E. f_equal. apply map_ext_in. intros b I.
    pose proof (W a c E b I). unfold val. apply deep_fuel; auto; lia.
  Qed.

  (* replace cell a *)
  Fixpoint upd (h : heap) (a : nat) (c : cell) : heap :=
    match h, a with
    | [], _ => []
    | _ :: t, 0 => c :: t
    | x :: t, S a' => x :: upd t a' c
    end.

  Lemma nth_upd h a c b : nth_error (upd h a c) b =
    if b =? a then (match nth_error h a with Some _ => Some c | None => None end) else nth_error h b.
  Proof.
    revert a b. induction h as [|x h IH]; intros [|a] [|b]; simpl; auto.
    - destruct (b =? a); auto.
  Qed.

  Lemma upd_length h a c : length (upd h a c) = length h.
  Proof. revert a. induction h as [|x h IH]; intros [|a]; simpl; auto. Qed.

  (* the heap operation performed by `x == y` on addresses a b, given the verdict of expr_equals *)
  Definition compare_op (verdict : bool) (h : heap) (a b : nat) : heap :=
    match nth_error h a, nth_error h b with
    | Some ca, Some cb =>
        if verdict && negb (is_term (ctc ca))
        then upd h a {| ctc := ctc ca; cpl := cpl ca; cops := cops cb |}
        else h
    | _, _ => h
    end.

  Definition sim (h h' : heap) : Prop :=
    length h = length h' /\ forall a, seq (val h' a) (val h a) = true.

  Lemma seql_map (f g : nat -> tree) (l : list nat) : (forall b, In b l -> seq (f b) (g b) = true) ->
    seql is_term teq (map f l) (map g l) = true.
  Proof. induction l; simpl; auto. intro F. rewrite F, IHl; auto. Qed.

  (* one comparison whose True verdict is correct (C13_expr_equals_spec) and whose right operand is
     not built after the left one's operands would allow (b's operands are below a: they are, since
     both trees are seq-equal and operands are smaller - we require it explicitly) *)
  Lemma compare_sim h a b verdict :
    wfh h ->
    (verdict = true -> seq (val h a) (val h b) = true) ->
    (forall cb, nth_error h b = Some cb -> forall x, In x (cops cb) -> x < a) ->
    wfh (compare_op verdict h a b) /\ sim h (compare_op verdict h a b).
  Proof.
    intros W V B. unfold compare_op.
    destruct (nth_error h a) as [ca|] eqn:Ea; [|split; auto; split; auto; intros; apply seq_refl; auto].
    destruct (nth_error h b) as [cb|] eqn:Eb; [|split; auto; split; auto; intros; apply seq_refl; auto].
    destruct verdict; simpl; [|split; auto; split; auto; intros; apply seq_refl; auto].
    destruct (is_term (ctc ca)) eqn:Ta; simpl; [split; auto; split; auto; intros; apply seq_refl; auto|].
    specialize (V eq_refl). specialize (B cb eq_refl).
    set (c' := {| ctc := ctc ca; cpl := cpl ca; cops := cops cb |}).
    set (h' := upd h a c').
    assert (W' : wfh h').
    { intros x c E y I. unfold h' in E. rewrite nth_upd in E. destruct (x =? a) eqn:X.
      - apply Nat.eqb_eq in X. subst x. rewrite Ea in E. inversion E; subst c. simpl in I. auto.
      - eapply W; eauto. }
    split; auto. split.
    { unfold h'. rewrite upd_length. reflexivity. }
    (* by strong induction on the address *)
    assert (G : forall n x, x < n -> seq (val h' x) (val h x) = true).
    { induction n; intros x L; [lia|].
      destruct (nth_error h x) as [cx|] eqn:Ex.
      - destruct (x =? a) eqn:X.
        + apply Nat.eqb_eq in X. subst x. rewrite Ea in Ex. inversion Ex; subst cx.
          assert (E' : nth_error h' a = Some c') by (unfold h'; rewrite nth_upd, Nat.eqb_refl, Ea; auto).
          rewrite (val_unfold h' a c' W' E'), (val_unfold h a ca W Ea). simpl.
          rewrite (val_unfold h a ca W Ea), (val_unfold h b cb W Eb) in V.
          rewrite seq_unfold in *. rewrite Nat.eqb_refl. simpl. rewrite Ta in *.
          apply andb_prop in V as [V1 V2].
          (* map (val h') (cops cb) ~ map (val h) (cops cb) ~ map (val h) (cops ca) *)
          assert (S1 : seql is_term teq (map (val h') (cops cb)) (map (val h) (cops cb)) = true).
          { apply seql_map. intros y I. apply IHn. pose proof (B y I). lia. }
          assert (S2 : seql is_term teq (map (val h) (cops cb)) (map (val h) (cops ca)) = true).
          { pose proof (seq_sym is_term teq teq_sym (Node 0 0 (map (val h) (cops ca)))
                                 (Node 0 0 (map (val h) (cops cb)))) as Sy.
            rewrite !seq_unfold in Sy. simpl in Sy.
            destruct (is_term 0) eqn:T0.
            - (* is_term 0: use a non-terminal wrapper instead *)
              clear Sy.
              pose proof (seq_sym is_term teq teq_sym (Node (ctc ca) 0 (map (val h) (cops ca)))
                                   (Node (ctc ca) 0 (map (val h) (cops cb)))) as Sy.
              rewrite !seq_unfold, Nat.eqb_refl, Ta in Sy. simpl in Sy. auto.
            - auto. }
          pose proof (seq_trans is_term teq teq_sym teq_trans (Node (ctc ca) 0 (map (val h') (cops cb)))
                        (Node (ctc ca) 0 (map (val h) (cops cb))) (Node (ctc ca) 0 (map (val h) (cops ca)))) as Tr.
          rewrite !seq_unfold, Nat.eqb_refl, Ta in Tr. simpl in Tr. auto.
        + assert (E' : nth_error h' x = Some cx) by (unfold h'; rewrite nth_upd, X; auto).
          rewrite (val_unfold h' x cx W' E'), (val_unfold h x cx W Ex).
          rewrite seq_unfold, Nat.eqb_refl. simpl. destruct (is_term (ctc cx)); auto.
          apply seql_map. intros y I. apply IHn. pose proof (W x cx Ex y I). lia.
      - assert (E' : nth_error h' x = None).
        { unfold h'. rewrite nth_upd. destruct (x =? a) eqn:X; auto.
          apply Nat.eqb_eq in X. subst. rewrite Ea in Ex. discriminate. }
        unfold val. simpl. rewrite E', Ex. apply seq_refl; auto. }
    intro x. apply (G (S x)). lia.
  Qed.

  (* a history of comparisons; each step carries the verdict the implementation computed *)
  Inductive steps : heap -> heap -> Prop :=
  | steps_nil h : steps h h
  | steps_cons h a b verdict h2 :
      (verdict = true -> seq (val h a) (val h b) = true) ->
      (forall cb, nth_error h b = Some cb -> forall x, In x (cops cb) -> x < a) ->
      steps (compare_op verdict h a b) h2 -> steps h h2.

  Lemma sim_trans h1 h2 h3 : sim h1 h2 -> sim h2 h3 -> sim h1 h3.
  Proof.
    intros [L1 S1] [L2 S2]. split; [congruence|]. intro a.
    eapply seq_trans; eauto.
  Qed.

  (* for ALL histories of comparisons and ALL objects: the denoted expression is unchanged up to ==,
     and so is every bottom-up attribute (repr, hash, shape, signature data, value) *)
  Theorem C13_compare_history_pure : forall h h', wfh h -> steps h h' ->
    wfh h' /\ sim h h' /\
    forall (X : Type) (leaf : nat -> nat -> X) (comb : nat -> list X -> X),
      (forall c p q, teq p q = true -> leaf c p = leaf c q) ->
      forall a, fold is_term X leaf comb (val h' a) = fold is_term X leaf comb (val h a).
  Proof.
    intros h h' W St.
    assert (A : wfh h' /\ sim h h').
    { induction St.
      - split; auto. split; auto. intros; apply seq_refl; auto.
      - destruct (compare_sim h a b verdict W H H0) as [W1 S1].
        destruct (IHSt W1) as [W2 S2]. split; auto. eapply sim_trans; eauto. }
    destruct A as [W' S]. repeat split; auto; try apply S.
    intros X leaf comb L a. apply (fold_seq is_term teq); auto. apply S.
  Qed.
End Heap.

Print Assumptions C13_expr_equals_spec.
Print Assumptions C13_py_eq_spec.
Print Assumptions C13_py_eq_equivalence.
Print Assumptions C13_equal_interchange.
Print Assumptions C13_compare_pure.
Print Assumptions C13_compare_history_pure.
