(* C07, hand-written part 2: the vertex-level definitions of C07_spec.v are the geometric ones.
   All statements are for ALL vertex positions over an arbitrary UFL algebra (given by its
   components, as in the generated files, so that ring/field see variables; every [ualg] is
   [Build_ualg] of its components).  sqrt and abs are uninterpreted in the algebra; the few facts
   needed about them enter as premises on the specific arguments
   ([sq_ok X : sqrt X * sqrt X = X], [abs_sq : abs x * abs x = x * x]), which hold in the reals for
   the sums of squares they are applied to. *)
Require Import UFLV.Core.Tac UFLV.Props.C07_spec.

Section Thms.
Variable KT : Type.
Variables (z0 z1 : KT) (add mul sub : KT -> KT -> KT) (opp : KT -> KT) (div : KT -> KT -> KT) (inv : KT -> KT).
Hypothesis Fth : field_theory z0 z1 add mul sub opp div inv (@eq KT).
Variables (conj re im abs : KT -> KT) (fn : mathfn -> KT -> KT) (pow atan2 : KT -> KT -> KT)
          (bessel : bkind -> KT -> KT -> KT).
Variable BT : Type.
Variables (cmp : cmpop -> KT -> KT -> BT) (and_ or_ : BT -> BT -> BT) (not_ : BT -> BT)
          (cond_ : BT -> KT -> KT -> KT) (min_ max_ : KT -> KT -> KT).
Definition A : ualg :=
  Build_ualg KT z0 z1 add mul sub opp div inv Fth conj re im abs fn pow atan2 bessel
             BT cmp and_ or_ not_ cond_ min_ max_.
Add Field FfC07 : Fth.
Hypothesis char0 : forall p, @of_pos A p <> z0.

Variable V : nat -> nat -> KT.
Variables co rd : KT.

Notation Jm := (Jm A V).
Notation det := (@Den.det A).
Notation gram := (@Den.gram A).
Notation ksum := (@Alg.ksum A).
Notation sqrt_ := (fn FSqrt).
Notation nrm2 := (nrm2 A).
Notation dotp := (dotp A).
Definition sq_ok (x : KT) : Prop := mul (sqrt_ x) (sqrt_ x) = x.
Definition abs_sq : Prop := forall x : KT, mul (abs x) (abs x) = mul x x.

Ltac rg := norm_goal; ring.
Ltac fd := norm_goal; field; nz_solve char0.
Ltac c2 i := destruct i as [|[|i]]; [ | | exfalso; lia ].
Ltac c3 i := destruct i as [|[|[|i]]]; [ | | | exfalso; lia ].
Ltac c4 i := destruct i as [|[|[|[|i]]]]; [ | | | | exfalso; lia ].

(* ---- Gram determinants -------------------------------------------------------------------- *)
(* 1 column: |a|^2;  2 columns: Lagrange |a|^2 |b|^2 - (a.b)^2;  square: (det)^2;  3x2: |a x b|^2 *)
Theorem gram_det_1 g (M : nat -> nat -> KT) : 1 <= g <= 3 ->
  det 1 (gram g M) = nrm2 g (fun i => M i 0).
Proof. intros Hg. assert (Hc : g = 1 \/ g = 2 \/ g = 3) by lia. destruct Hc as [Hc|[Hc|Hc]]; subst g; rg. Qed.
Theorem gram_det_2 g (M : nat -> nat -> KT) : 2 <= g <= 3 ->
  det 2 (gram g M) = sub (mul (nrm2 g (fun i => M i 0)) (nrm2 g (fun i => M i 1)))
                         (mul (dotp g (fun i => M i 0) (fun i => M i 1)) (dotp g (fun i => M i 0) (fun i => M i 1))).
Proof. intros Hg. assert (Hc : g = 2 \/ g = 3) by lia. destruct Hc as [Hc|Hc]; subst g; rg. Qed.
Theorem gram_det_square n (M : nat -> nat -> KT) : 1 <= n <= 3 ->
  det n (gram n M) = mul (det n M) (det n M).
Proof. intros Hn. assert (Hc : n = 1 \/ n = 2 \/ n = 3) by lia. destruct Hc as [Hc|[Hc|Hc]]; subst n; rg. Qed.
Theorem gram_det_cross (M : nat -> nat -> KT) :
  det 2 (gram 3 M) = nrm2 3 (cross3 A (fun i => M i 0) (fun i => M i 1)).
Proof. rg. Qed.

(* ---- (pseudo-)inverse: pinv M is a left inverse of M; it annihilates the normal ------------- *)
Theorem pinv_left_square n M i j : 1 <= n <= 3 -> i < n -> j < n -> det n M <> z0 ->
  ksum n (fun k => mul (pinv A n n M i k) (M k j)) = delta A i j.
Proof.
  intros Hn Hi Hj H. assert (Hc : n = 1 \/ n = 2 \/ n = 3) by lia.
  destruct Hc as [Hc|[Hc|Hc]]; subst n; norm_hyp H.
  - destruct i; [|exfalso; lia]; destruct j; [|exfalso; lia]; fd.
  - c2 i; c2 j; fd.
  - c3 i; c3 j; fd.
Qed.
Theorem pinv_right_square n M i j : 1 <= n <= 3 -> i < n -> j < n -> det n M <> z0 ->
  ksum n (fun k => mul (M i k) (pinv A n n M k j)) = delta A i j.
Proof.
  intros Hn Hi Hj H. assert (Hc : n = 1 \/ n = 2 \/ n = 3) by lia.
  destruct Hc as [Hc|[Hc|Hc]]; subst n; norm_hyp H.
  - destruct i; [|exfalso; lia]; destruct j; [|exfalso; lia]; fd.
  - c2 i; c2 j; fd.
  - c3 i; c3 j; fd.
Qed.
Theorem pinv_left_g1 g M : 2 <= g <= 3 -> det 1 (gram g M) <> z0 ->
  ksum g (fun k => mul (pinv A g 1 M 0 k) (M k 0)) = z1.
Proof.
  intros Hg H. assert (Hc : g = 2 \/ g = 3) by lia. destruct Hc; subst g; norm_hyp H; fd.
Qed.
Theorem pinv_left_32 M i j : i < 2 -> j < 2 -> det 2 (gram 3 M) <> z0 ->
  ksum 3 (fun k => mul (pinv A 3 2 M i k) (M k j)) = delta A i j.
Proof. intros Hi Hj H. norm_hyp H. c2 i; c2 j; fd. Qed.
Theorem pinv_32_kills_normal M i : i < 2 -> det 2 (gram 3 M) <> z0 ->
  ksum 3 (fun k => mul (pinv A 3 2 M i k) (cross3 A (fun r => M r 0) (fun r => M r 1) k)) = z0.
Proof. intros Hi H. norm_hyp H. c2 i; fd. Qed.

(* ---- cell volume: vol = abs(r0 * detJ); its square is the Gram determinant over (t!)^2 ------- *)
Lemma mul4 (a b c d : KT) : mul (mul a b) (mul a b) = mul (mul a a) (mul b b).
Proof. ring. Qed.
Theorem vol_sq_square t : abs_sq ->
  mul (vol A V co t t) (vol A V co t t) = mul (mul (r0 A t) (r0 A t)) (mul (det t Jm) (det t Jm)).
Proof.
  intros Habs. unfold vol. change (@kabs A) with abs. rewrite Habs.
  unfold detJ. rewrite Nat.eqb_refl. change (@kmul A) with mul. apply mul4; exact z0.
Qed.
Theorem vol_sq_immersed t g : t < g -> abs_sq -> mul co co = z1 -> sq_ok (det t (gram g Jm)) ->
  mul (vol A V co t g) (vol A V co t g) = mul (mul (r0 A t) (r0 A t)) (det t (gram g Jm)).
Proof.
  intros Htg Habs Hco Hs. unfold vol. change (@kabs A) with abs. rewrite Habs. unfold detJ.
  replace (Nat.eqb t g) with false by (symmetry; apply Nat.eqb_neq; lia).
  unfold sq_ok in Hs. change (@kmul A) with mul. unfold ksqrt. change (@kfn A) with fn.
  set (s := sqrt_ (det t (gram g Jm))) in *. set (r := r0 A t).
  transitivity (mul (mul r r) (mul (mul co co) (mul s s))); [ring|]. rewrite Hco, Hs. ring.
Qed.

(* ---- circumradius of a triangle (gdim 2 or 3) ----------------------------------------------- *)
(* circumcentre c = v0 + alpha a + beta b with a = v1 - v0, b = v2 - v0,
   alpha = q(p-r)/(2G), beta = p(q-r)/(2G), p = a.a, q = b.b, r = a.b, G = pq - r^2 *)
Definition tri_centre (g i : nat) : KT :=
  let a k := sub (V 1 k) (V 0 k) in
  let b k := sub (V 2 k) (V 0 k) in
  let p := nrm2 g a in let q := nrm2 g b in let r := dotp g a b in
  let G := sub (mul p q) (mul r r) in
  add (add (V 0 i) (mul (div (mul q (sub p r)) (mul (add z1 z1) G)) (a i)))
      (mul (div (mul p (sub q r)) (mul (add z1 z1) G)) (b i)).
Definition dist2 (g : nat) (c : nat -> KT) (k : nat) : KT := nrm2 g (fun i => sub (c i) (V k i)).

Lemma sq_nz x : x <> z0 -> mul x x <> z0.
Proof.
  intros H E. apply H. transitivity (div (mul x x) x); [field; exact H | rewrite E; field; exact H].
Qed.

Lemma sq_quot (l1 l2 l3 v c : KT) : v <> z0 -> c <> z0 ->
  mul (div (mul (mul l1 l2) l3) (mul c v)) (div (mul (mul l1 l2) l3) (mul c v))
  = div (mul (mul (mul l1 l1) (mul l2 l2)) (mul l3 l3)) (mul (mul c c) (mul v v)).
Proof. intros Hv Hc. field. split; assumption. Qed.

Lemma circ_tri_unfold g :
  abs_sq -> vol A V co 2 g <> z0 ->
  sq_ok (nrm2 g (vvec A V 1 2)) -> sq_ok (nrm2 g (vvec A V 0 2)) -> sq_ok (nrm2 g (vvec A V 0 1)) ->
  mul (circ A V co 2 g) (circ A V co 2 g) =
    div (mul (mul (nrm2 g (vvec A V 1 2)) (nrm2 g (vvec A V 0 2))) (nrm2 g (vvec A V 0 1)))
        (mul (mul (@of_nat A 4) (@of_nat A 4))
             (mul (mul (r0 A 2) (detJ A V co 2 g)) (mul (r0 A 2) (detJ A V co 2 g)))).
Proof.
  intros Habs Hv H12 H02 H01. unfold circ, vlen, ksqrt. unfold sq_ok in *.
  change (@kfn A) with fn. change (@kmul A) with mul. change (@kdiv A) with div.
  rewrite sq_quot; [ | exact Hv | intro E; apply (char0 4%positive); exact E ].
  rewrite H12, H02, H01. unfold vol. change (@kabs A) with abs. rewrite Habs. reflexivity.
Qed.

(* the circumradius formula of the lowered code, squared, is the squared distance of the
   circumcentre from each of the three vertices *)
Theorem circ_triangle_2 k : k < 3 ->
  abs_sq -> det 2 Jm <> z0 -> vol A V co 2 2 <> z0 ->
  sq_ok (nrm2 2 (vvec A V 1 2)) -> sq_ok (nrm2 2 (vvec A V 0 2)) -> sq_ok (nrm2 2 (vvec A V 0 1)) ->
  mul (circ A V co 2 2) (circ A V co 2 2) = dist2 2 (tri_centre 2) k.
Proof.
  intros Hk Habs Hd Hv H12 H02 H01. rewrite circ_tri_unfold by assumption.
  assert (HG : det 2 (gram 2 Jm) <> z0) by (rewrite gram_det_square by lia; apply sq_nz; exact Hd).
  norm_hyp Hd. norm_hyp HG. c3 k; fd.
Qed.

Theorem circ_triangle_3 k : k < 3 ->
  abs_sq -> mul co co = z1 -> det 2 (gram 3 Jm) <> z0 -> vol A V co 2 3 <> z0 ->
  sq_ok (det 2 (gram 3 Jm)) ->
  sq_ok (nrm2 3 (vvec A V 1 2)) -> sq_ok (nrm2 3 (vvec A V 0 2)) -> sq_ok (nrm2 3 (vvec A V 0 1)) ->
  mul (circ A V co 2 3) (circ A V co 2 3) = dist2 3 (tri_centre 3) k.
Proof.
  intros Hk Habs Hco Hd Hv HG H12 H02 H01. rewrite circ_tri_unfold by assumption.
  replace (mul (mul (r0 A 2) (detJ A V co 2 3)) (mul (r0 A 2) (detJ A V co 2 3)))
    with (mul (mul (r0 A 2) (r0 A 2)) (det 2 (gram 3 Jm))).
  2:{ unfold detJ. cbn [Nat.eqb]. unfold sq_ok in HG. unfold ksqrt.
      change (@kfn A) with fn. change (@kmul A) with mul.
      set (s := sqrt_ (det 2 (gram 3 Jm))) in *. set (r := r0 A 2).
      transitivity (mul (mul r r) (mul (mul co co) (mul s s))); [rewrite Hco, HG|]; ring. }
  norm_hyp Hd. c3 k; fd.
Qed.

End Thms.

Print Assumptions gram_det_2.
Print Assumptions pinv_left_32.
Print Assumptions vol_sq_immersed.
Print Assumptions circ_triangle_2.
Print Assumptions circ_triangle_3.
