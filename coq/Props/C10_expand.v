(* C10: model of expand_indices (IndexExpander of ufl/algorithms/expand_indices.py).

   [expand0 v c e]   the pure transformation: v = the StackDict index -> value (latest binding
                     first), c = the current component; the result is a scalar expression
                     without free indices;
   [expandS]         the same with the label-keyed variable cache of Transformer.reuse_variable
                     threaded through the traversal (faithful to the code: a cache hit returns the
                     expansion made under the FIRST component context), and a flag recording
                     whether some cache hit happened under a component different from the one the
                     entry was created under ([var_ctx_clash], the class of the known finding);
   Theorem C10_expand_partial: for every expression of the fragment, valuation, valid component:
       expand0 v c e = Some e'  ->  den rho' e' [] = den (rho_of v) e c     for every rho'.
   The generated files check [expand_indices e = expand0 [] [] e] by computation for every
   generated input on which no clash occurs. *)
Require Import UFLV.Core.Den UFLV.Props.C10_model UFLV.Props.C10_lemmas UFLV.Props.C10_thm.
Import ListNotations.

Definition valn := list (nat * nat).
Fixpoint vlookup (v : valn) (i : nat) : option nat :=
  match v with [] => None | (j, k) :: t => if Nat.eqb i j then Some k else vlookup t i end.
Definition rho_of (v : valn) : nat -> nat :=
  fun i => match vlookup v i with Some k => k | None => 0 end.
Definition mi_vals (v : valn) (mi : list idx) : option (list nat) :=
  mapM (fun x => match x with Fixed n => Some n | Free i => vlookup v i end) mi.
Fixpoint push_all (v : valn) (ix : list (nat * nat)) (c : list nat) : valn :=
  match ix, c with
  | (i, _) :: ix', k :: c' => push_all ((i, k) :: v) ix' c'
  | _, _ => v
  end.
(* sum(ops) of Python: op0 + op1 + ... *)
Fixpoint esum (d : nat) (f : nat -> option expr) : option expr :=
  match d with
  | 0 => Some (Zero [] [])
  | S m => bind (esum m f) (fun acc => bind (f m) (fun x =>
             Some (match m with 0 => x | _ => Sum acc x end)))
  end.
Definition fixed_mi (c : list nat) : list idx := map Fixed c.
Definition at_comp (e : expr) (sh c : list nat) : option expr :=
  if Nat.eqb (length sh) (length c)
  then Some (match c with [] => e | _ => Indexed e (fixed_mi c) end) else None.

Section Exp0.
Variable expand0 : valn -> list nat -> expr -> option expr.
Fixpoint cexpand0 (v : valn) (cn : cond) : option cond :=
  match cn with
  | Cmp op a b => bind (expand0 v [] a) (fun a' => bind (expand0 v [] b) (fun b' => Some (Cmp op a' b')))
  | AndC a b => bind (cexpand0 v a) (fun a' => bind (cexpand0 v b) (fun b' => Some (AndC a' b')))
  | OrC a b => bind (cexpand0 v a) (fun a' => bind (cexpand0 v b) (fun b' => Some (OrC a' b')))
  | NotC a => bind (cexpand0 v a) (fun a' => Some (NotC a'))
  end.
End Exp0.

Fixpoint expand0 (v : valn) (c : list nat) (e : expr) {struct e} : option expr :=
  let un (C : expr -> expr) a := bind (expand0 v c a) (fun a' => Some (C a')) in
  let bin (C : expr -> expr -> expr) a b :=
    bind (expand0 v c a) (fun a' => bind (expand0 v c b) (fun b' => Some (C a' b'))) in
  match e with
  | Zero sh _ => if Nat.eqb (length sh) (length c) then Some (Zero [] []) else None
  | IntV _ | RealV _ _ | CplxV _ _ _ _ | RatV _ _ => match c with [] => Some e | _ => None end
  | Identity n => at_comp e [n; n] c
  | PermSym n => at_comp e (repeat n n) c
  | Term _ _ sh => at_comp e sh c
  | Sum a b => bin Sum a b
  | Product a b => bin Product a b
  | Division a b => match c with [] => bin Division a b | _ => None end
  | Power a b => if is_lit b then un (fun a' => Power a' b) a else bin Power a b
  | Abs a => un Abs a | Conj a => un Conj a | Real a => un Real a | Imag a => un Imag a
  | Math g a => un (Math g) a
  | MinV a b => bin MinV a b | MaxV a b => bin MaxV a b | Atan2 a b => bin Atan2 a b
  | Bessel k a b => bin (Bessel k) a b
  | Restricted p a => un (Restricted p) a
  | Vari a l => un (fun a' => Vari a' l) a
  | Indexed a mi => bind (mi_vals v mi) (fun c' => expand0 v c' a)
  | IndexSum a i d => esum d (fun k => expand0 ((i, k) :: v) c a)
  | ComponentTensor a ix =>
      if Nat.eqb (length ix) (length c) then expand0 (push_all v ix c) [] a else None
  | ListTensor es =>
      match c with
      | [] => None
      | k :: c' =>
          (fix pick (l : list expr) (n : nat) {struct l} : option expr :=
             match l, n with
             | [], _ => None
             | x :: _, 0 => expand0 v c' x
             | _ :: t, S n' => pick t n'
             end) es k
      end
  | Conditional cn t f =>
      bind (cexpand0 expand0 v cn) (fun cn' => bind (expand0 v c t) (fun t' =>
        bind (expand0 v c f) (fun f' => Some (Conditional cn' t' f'))))
  | Grad a g => match dv a with [] => at_comp e (shape a ++ [g]) c | _ => None end
  | _ => None
  end.

(* ---- with the variable cache ---- *)
Definition centry := (nat * (expr * list nat))%type.
Definition cstate := (list centry * bool)%type.
Fixpoint clookup (ch : list centry) (l : nat) : option (expr * list nat) :=
  match ch with [] => None | (j, x) :: t => if Nat.eqb l j then Some x else clookup t l end.
Fixpoint list_eqb (a b : list nat) : bool :=
  match a, b with
  | [], [] => true
  | x :: a', y :: b' => Nat.eqb x y && list_eqb a' b'
  | _, _ => false
  end.
Definition bindS {X Y} (o : option (X * cstate)) (f : X -> cstate -> option (Y * cstate)) :=
  match o with Some (x, st) => f x st | None => None end.
Fixpoint esumS (d : nat) (f : nat -> cstate -> option (expr * cstate)) (st : cstate) :
  option (expr * cstate) :=
  match d with
  | 0 => Some (Zero [] [], st)
  | S m => bindS (esumS m f st) (fun acc st1 => bindS (f m st1) (fun x st2 =>
             Some (match m with 0 => x | _ => Sum acc x end, st2)))
  end.
Section ExpS.
Variable expandS : valn -> list nat -> expr -> cstate -> option (expr * cstate).
Fixpoint cexpandS (v : valn) (cn : cond) (st : cstate) : option (cond * cstate) :=
  match cn with
  | Cmp op a b => bindS (expandS v [] a st) (fun a' st1 => bindS (expandS v [] b st1) (fun b' st2 =>
                    Some (Cmp op a' b', st2)))
  | AndC a b => bindS (cexpandS v a st) (fun a' st1 => bindS (cexpandS v b st1) (fun b' st2 =>
                    Some (AndC a' b', st2)))
  | OrC a b => bindS (cexpandS v a st) (fun a' st1 => bindS (cexpandS v b st1) (fun b' st2 =>
                    Some (OrC a' b', st2)))
  | NotC a => bindS (cexpandS v a st) (fun a' st1 => Some (NotC a', st1))
  end.
End ExpS.
Definition ret (st : cstate) (o : option expr) : option (expr * cstate) :=
  match o with Some e => Some (e, st) | None => None end.

Fixpoint expandS (v : valn) (c : list nat) (e : expr) (st : cstate) {struct e} :
  option (expr * cstate) :=
  let un (C : expr -> expr) a := bindS (expandS v c a st) (fun a' st1 => Some (C a', st1)) in
  let bin (C : expr -> expr -> expr) a b :=
    bindS (expandS v c a st) (fun a' st1 => bindS (expandS v c b st1) (fun b' st2 => Some (C a' b', st2))) in
  match e with
  | Zero sh _ => ret st (if Nat.eqb (length sh) (length c) then Some (Zero [] []) else None)
  | IntV _ | RealV _ _ | CplxV _ _ _ _ | RatV _ _ => ret st (match c with [] => Some e | _ => None end)
  | Identity n => ret st (at_comp e [n; n] c)
  | PermSym n => ret st (at_comp e (repeat n n) c)
  | Term _ _ sh => ret st (at_comp e sh c)
  | Sum a b => bin Sum a b
  | Product a b => bin Product a b
  | Division a b => match c with [] => bin Division a b | _ => None end
  | Power a b => if is_lit b then un (fun a' => Power a' b) a else bin Power a b
  | Abs a => un Abs a | Conj a => un Conj a | Real a => un Real a | Imag a => un Imag a
  | Math g a => un (Math g) a
  | MinV a b => bin MinV a b | MaxV a b => bin MaxV a b | Atan2 a b => bin Atan2 a b
  | Bessel k a b => bin (Bessel k) a b
  | Restricted p a => un (Restricted p) a
  | Vari a l =>
      match clookup (fst st) l with
      | Some (x, c0) => Some (x, (fst st, snd st || negb (list_eqb c c0)))
      | None => bindS (expandS v c a st) (fun a' st1 =>
                  let x := Vari a' l in Some (x, ((l, (x, c)) :: fst st1, snd st1)))
      end
  | Indexed a mi => match mi_vals v mi with Some c' => expandS v c' a st | None => None end
  | IndexSum a i d => esumS d (fun k st1 => expandS ((i, k) :: v) c a st1) st
  | ComponentTensor a ix =>
      if Nat.eqb (length ix) (length c) then expandS (push_all v ix c) [] a st else None
  | ListTensor es =>
      match c with
      | [] => None
      | k :: c' =>
          (fix pick (l : list expr) (n : nat) {struct l} : option (expr * cstate) :=
             match l, n with
             | [], _ => None
             | x :: _, 0 => expandS v c' x st
             | _ :: t, S n' => pick t n'
             end) es k
      end
  | Conditional cn t f =>
      bindS (cexpandS expandS v cn st) (fun cn' st1 => bindS (expandS v c t st1) (fun t' st2 =>
        bindS (expandS v c f st2) (fun f' st3 => Some (Conditional cn' t' f', st3))))
  | Grad a g => ret st (match dv a with [] => at_comp e (shape a ++ [g]) c | _ => None end)
  | _ => None
  end.

Definition expand_indices (e : expr) : option expr :=
  match expandS [] [] e ([], false) with Some (x, _) => Some x | None => None end.
(* some Variable label is re-used from the cache under a different component context *)
Definition var_ctx_clash (e : expr) : bool :=
  match expandS [] [] e ([], false) with Some (_, (_, b)) => b | None => false end.

(* ---------------------------------------------------------------------------------------- *)
Lemma mi_vals_spec v mi c' : mi_vals v mi = Some c' ->
  map (idxval (rho_of v)) mi = c' /\ length c' = length mi.
Proof.
  unfold mi_vals. revert c'. induction mi as [|x t IH]; intros c' H; cbn in H.
  - injection H as <-. split; reflexivity.
  - unfold bind in H.
    match type of H with context [mapM ?F t] => fold (mapM F t) in H; destruct (mapM F t) as [t'|] eqn:Et end.
    + destruct (IH t' eq_refl) as [H1 H2].
      destruct x as [k|i]; cbn in H.
      * injection H as <-. cbn. split; congruence.
      * destruct (vlookup v i) as [k|] eqn:Ev; [|discriminate]. injection H as <-.
        assert (Hk : rho_of v i = k) by (unfold rho_of; rewrite Ev; reflexivity).
        cbn. split; congruence.
    + destruct x as [k|i]; cbn in H; [discriminate|]. destruct (vlookup v i); discriminate.
Qed.
Lemma rho_of_push v i k j : rho_of ((i, k) :: v) j = upd (rho_of v) i k j.
Proof. unfold rho_of. cbn. destruct (Nat.eqb j i); reflexivity. Qed.
Lemma rho_of_push_all : forall ix c v j, length ix = length c ->
  rho_of (push_all v ix c) j = upds (rho_of v) ix c j.
Proof.
  induction ix as [|[i d] t IH]; intros c v j Hl; destruct c as [|k c']; try discriminate Hl; [reflexivity|].
  cbn [push_all upds]. rewrite IH by (cbn in Hl; lia). apply upds_at. apply rho_of_push.
Qed.
Lemma map_idxval_fixed rho c : map (idxval rho) (fixed_mi c) = c.
Proof. unfold fixed_mi. rewrite map_map. cbn. apply map_id. Qed.

Section ExpThm.
Variable A : ualg.
Add Field AfC10e : (kfield A).
Variable env : side -> nat -> nat -> list nat -> A.
Variables D DX : nat -> A -> A.
Variable ki : A.
Notation DEN := (@den A env D DX ki).
Notation DENC := (@denc A env D DX ki).
Open Scope K_scope.

Lemma at_comp_den e sh c e' rho' rho s :
  at_comp e sh c = Some e' -> DEN s rho' e c = DEN s rho e c ->
  DEN s rho' e' [] = DEN s rho e c.
Proof.
  unfold at_comp. destruct (Nat.eqb (length sh) (length c)); [|discriminate].
  intros H Hi. injection H as <-. destruct c as [|k c']; [apply Hi|].
  cbn [den]. rewrite map_idxval_fixed. apply Hi.
Qed.

Lemma esum_den d f e' (g : nat -> A) s rho' :
  esum d f = Some e' ->
  (forall k x, k < d -> f k = Some x -> DEN s rho' x [] = g k) ->
  DEN s rho' e' [] = ksum d g.
Proof.
  revert e'; induction d as [|m IH]; intros e' H Hf; cbn in H.
  - injection H as <-. reflexivity.
  - unfold bind in H. destruct (esum m f) as [acc|] eqn:Ea; [|discriminate].
    destruct (f m) as [x|] eqn:Ex; [|discriminate]. injection H as <-.
    cbn [ksum]. rewrite <- (Hf m x (Nat.lt_succ_diag_r m) Ex).
    rewrite <- (IH acc eq_refl) by (intros k y Hk; apply Hf; lia).
    destruct m; cbn [den].
    + cbn in Ea. injection Ea as <-. cbn [den]. ring.
    + reflexivity.
Qed.

Ltac scalar_pos Hr c :=
  match type of Hr with
  | (Nat.eqb (length c) 0) = true => destruct c; [|discriminate Hr]
  | _ => idtac
  end.
Ltac inv_exp Hm :=
  repeat match type of Hm with
         | context [match expand0 ?v ?c ?a with _ => _ end] =>
             let E := fresh "E" in destruct (expand0 v c a) eqn:E; [|discriminate Hm]
         end.
Ltac use_ih IH Hs rho' :=
  repeat match goal with
         | E : expand0 ?v ?c ?a = Some ?a' |- _ =>
             let V := fresh "V" in
             assert (V : forall s, DEN s rho' a' [] = DEN s (rho_of v) a c)
               by (intros ?; apply IH; [cbn [size] in Hs; lia | exact E | assumption]);
             clear E
         end.

Lemma expand0_den_n n : forall e v c e', size e <= n ->
  expand0 v c e = Some e' -> rk e (length c) = true ->
  forall s rho', DEN s rho' e' [] = DEN s (rho_of v) e c.
Proof.
  induction n as [|n IH]; intros e v c e' Hs Hm Hr s rho'.
  - destruct e; cbn in Hs; lia.
  - destruct e; try discriminate Hr; cbn [expand0] in Hm; unfold bind in Hm.
    + (* Zero *) destruct (Nat.eqb (length sh) (length c)); [|discriminate]. injection Hm as <-. reflexivity.
    + destruct c; [|discriminate]. injection Hm as <-. reflexivity.
    + destruct c; [|discriminate]. injection Hm as <-. reflexivity.
    + destruct c; [|discriminate]. injection Hm as <-. reflexivity.
    + destruct c; [|discriminate]. injection Hm as <-. reflexivity.
    + apply (at_comp_den _ _ _ _ _ _ _ Hm). reflexivity.
    + apply (at_comp_den _ _ _ _ _ _ _ Hm). reflexivity.
    + apply (at_comp_den _ _ _ _ _ _ _ Hm). reflexivity.
    + (* Sum *) inv_exp Hm. injection Hm as <-. split_rk' Hr. use_ih IH Hs rho'.
      cbn [den]. rewrite V, V0. reflexivity.
    + (* Product *) inv_exp Hm. injection Hm as <-. split_rk' Hr. scalar_pos Hr c. use_ih IH Hs rho'.
      cbn [den]. rewrite V, V0. reflexivity.
    + (* Division *) split_rk' Hr. scalar_pos Hr c. inv_exp Hm. injection Hm as <-. use_ih IH Hs rho'.
      cbn [den]. rewrite V, V0. reflexivity.
    + (* Power *) split_rk' Hr. scalar_pos Hr c. rewrite R0 in Hm. inv_exp Hm. injection Hm as <-.
      use_ih IH Hs rho'.
      destruct e2; try discriminate R0; try (destruct z); cbn [den]; rewrite ?V; reflexivity.
    + inv_exp Hm. injection Hm as <-. cbn [rk] in Hr. use_ih IH Hs rho'. cbn [den]. rewrite V. reflexivity.
    + inv_exp Hm. injection Hm as <-. cbn [rk] in Hr. use_ih IH Hs rho'. cbn [den]. rewrite V. reflexivity.
    + inv_exp Hm. injection Hm as <-. cbn [rk] in Hr. use_ih IH Hs rho'. cbn [den]. rewrite V. reflexivity.
    + inv_exp Hm. injection Hm as <-. cbn [rk] in Hr. use_ih IH Hs rho'. cbn [den]. rewrite V. reflexivity.
    + (* Indexed *) destruct (mi_vals v mi) as [c'|] eqn:Ev; [|discriminate].
      destruct (mi_vals_spec v mi c' Ev) as [H1 H2].
      split_rk' Hr. cbn [den]. rewrite H1.
      apply IH; [cbn [size] in Hs; lia|exact Hm|rewrite H2; exact R].
    + (* IndexSum *) cbn [rk] in Hr. cbn [den].
      apply (esum_den d _ e' _ s rho' Hm). intros k x Hk Ex.
      rewrite (IH e ((i, k) :: v) c x ltac:(cbn [size] in Hs; lia) Ex Hr s rho').
      apply den_ext_on; [|exact Hr]. intros j _. apply rho_of_push.
    + (* ComponentTensor *) split_rk' Hr. rewrite Nat.eqb_sym in Hr. rewrite Hr in Hm.
      apply Nat.eqb_eq in Hr. cbn [den].
      rewrite (IH e (push_all v ix c) [] e' ltac:(cbn [size] in Hs; lia) Hm R s rho').
      apply den_ext_on; [|exact R]. intros j _. apply rho_of_push_all. exact Hr.
    + (* ListTensor *) destruct c as [|k c']; [discriminate|]. cbn [rk length] in Hr. cbn [den].
      assert (Hsz : forall x, In x es -> size x <= n).
      { intros x Hx. pose proof (children_size (ListTensor es) x Hx). lia. }
      clear Hs. revert k Hm. induction es as [|x t IHes]; intros k Hm; [discriminate|].
      cbn in Hr. apply andb_true_iff in Hr. destruct Hr as [Hx Ht].
      destruct k as [|k].
      * apply IH; [apply Hsz; left; reflexivity|exact Hm|exact Hx].
      * apply IHes; [exact Ht|intros y Hy; apply Hsz; right; exact Hy|exact Hm].
    + (* Conditional *)
      destruct (cexpand0 expand0 v c0) as [cn'|] eqn:Ec; [|discriminate].
      inv_exp Hm. injection Hm as <-. split_rk' Hr. use_ih IH Hs rho'.
      rewrite !den_Conditional. rewrite V, V0. f_equal.
      assert (Hc : csize c0 <= n) by (cbn [size] in Hs; lia).
      clear - IH Ec Hr Hc. revert cn' Ec Hr Hc.
      induction c0; intros cn' Ec Hr Hc; cbn in Ec; unfold bind in Ec; cbn [crk] in Hr; cbn [csize] in Hc;
        try (apply andb_true_iff in Hr; destruct Hr as [Hr1 Hr2]).
      * destruct (expand0 v [] a) as [a'|] eqn:Ea; [|discriminate].
        destruct (expand0 v [] b) as [b'|] eqn:Eb; [|discriminate]. injection Ec as <-.
        rewrite !denc_Cmp.
        rewrite (IH a v [] a' ltac:(lia) Ea Hr1 s rho'), (IH b v [] b' ltac:(lia) Eb Hr2 s rho'). reflexivity.
      * destruct (cexpand0 expand0 v c0_1) as [c1|] eqn:E1; [|discriminate].
        destruct (cexpand0 expand0 v c0_2) as [c2|] eqn:E2; [|discriminate]. injection Ec as <-.
        rewrite !denc_And. rewrite (IHc0_1 c1 eq_refl Hr1 ltac:(lia)), (IHc0_2 c2 eq_refl Hr2 ltac:(lia)). reflexivity.
      * destruct (cexpand0 expand0 v c0_1) as [c1|] eqn:E1; [|discriminate].
        destruct (cexpand0 expand0 v c0_2) as [c2|] eqn:E2; [|discriminate]. injection Ec as <-.
        rewrite !denc_Or. rewrite (IHc0_1 c1 eq_refl Hr1 ltac:(lia)), (IHc0_2 c2 eq_refl Hr2 ltac:(lia)). reflexivity.
      * destruct (cexpand0 expand0 v c0) as [c1|] eqn:E1; [|discriminate]. injection Ec as <-.
        rewrite !denc_Not. rewrite (IHc0 c1 eq_refl Hr ltac:(lia)). reflexivity.
    + (* MinV *) inv_exp Hm. injection Hm as <-. split_rk' Hr. scalar_pos Hr c. use_ih IH Hs rho'.
      cbn [den]. rewrite V, V0. reflexivity.
    + (* MaxV *) inv_exp Hm. injection Hm as <-. split_rk' Hr. scalar_pos Hr c. use_ih IH Hs rho'.
      cbn [den]. rewrite V, V0. reflexivity.
    + (* Math *) inv_exp Hm. injection Hm as <-. split_rk' Hr. scalar_pos Hr c. use_ih IH Hs rho'.
      cbn [den]. rewrite V. reflexivity.
    + (* Atan2 *) inv_exp Hm. injection Hm as <-. split_rk' Hr. scalar_pos Hr c. use_ih IH Hs rho'.
      cbn [den]. rewrite V, V0. reflexivity.
    + (* Bessel *) inv_exp Hm. injection Hm as <-. split_rk' Hr. scalar_pos Hr c. use_ih IH Hs rho'.
      cbn [den]. rewrite V, V0. reflexivity.
    + (* Vari *) inv_exp Hm. injection Hm as <-. cbn [rk] in Hr. use_ih IH Hs rho'. cbn [den]. rewrite V. reflexivity.
    + (* Restricted *) inv_exp Hm. injection Hm as <-. cbn [rk] in Hr. use_ih IH Hs rho'. cbn [den]. rewrite V. reflexivity.
    + (* Grad *) destruct (dv e) eqn:Edv; [|discriminate].
      apply (at_comp_den _ _ _ _ _ _ _ Hm).
      cbn [den split_last]. f_equal. cbn [rk] in Hr.
      apply den_ext_on; [rewrite Edv; intros j []|].
      rewrite removelast_length. destruct (length c); [discriminate|exact Hr].
    + discriminate Hm.
    + discriminate Hm.
Qed.

(* expand_indices (without variable-cache clashes) preserves the value: for every expression of the
   fragment, every index valuation v, every valid component c, every algebra and environment the
   expansion is a scalar whose value does not depend on any index valuation rho' and equals the
   value of component c of e under v *)
Theorem C10_expand_partial e v c e' :
  expand0 v c e = Some e' -> rk e (length c) = true ->
  forall s rho', DEN s rho' e' [] = DEN s (rho_of v) e c.
Proof. apply (expand0_den_n (size e)). lia. Qed.

End ExpThm.

Print Assumptions C10_expand_partial.
