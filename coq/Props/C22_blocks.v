(* C22 - Block extraction partitions mixed forms: the unbounded part.

   A mixed function with N flattened components is a map [nat -> A] (only components k < N matter);
   a partition of the components into sub-functions is any map [blk : nat -> nat] (component k
   belongs to sub-function [blk k]) with [blk k < n] for k < N -- this covers every MixedElement
   (scalar, vector, tensor and nested sub-elements, any number n of them).  An integrand that is
   linear in the test function is any [e : (nat -> A) -> A] that is additive and depends only on
   the components k < N.  [iota i v] is the zero-padded embedding of the i-th sub-function of v.

   Theorems (for every UFL algebra A, every n, every partition):
     C22_partition_linear    e v     = sum_i   e (iota i v)
     C22_partition_bilinear  e v u   = sum_i sum_j e (iota i v) (iota' j u)
     C22_block_independent   e (iota i v) (iota' j u) does not change when the other sub-functions do
     C22_embedding_den       the ListTensor that FormSplitter.argument builds denotes iota i
   and the model of the all-blocks loops of extract_blocks (grid n0 x n0, n0 taken from the first
   argument), faithful to the pinned code:
     C22_grid_partial            equal numbers of sub-spaces: the grid sums to e v u
     C22_grid_linear_scaled      linear form: the n0 x n0 grid sums to n0 * e v
     C22_grid_linear_refuted     ... which differs from e v          (known finding)
     C22_grid_trial_refuted      trial space with more sub-spaces: blocks are dropped (known finding) *)
Require Import UFLV.Core.Den.

Section Blocks.
Variable A : ualg.
Add Field C22f : (kfield A).
Open Scope K_scope.

Definition vec := nat -> A.
Definition vzero : vec := fun _ => k0.
Definition vadd (v w : vec) : vec := fun k => v k + w k.

(* zero-padded embedding of sub-function i (w.r.t. the partition blk) *)
Definition iota (blk : nat -> nat) (i : nat) (v : vec) : vec :=
  fun k => if Nat.eqb (blk k) i then v k else k0.
(* the sub-functions below m *)
Definition below (blk : nat -> nat) (m : nat) (v : vec) : vec :=
  fun k => if Nat.ltb (blk k) m then v k else k0.

Section Linear.
Variable N : nat.
Variable e : vec -> A.
Hypothesis e_ext : forall v w, (forall k, k < N -> v k = w k) -> e v = e w.
Hypothesis e_add : forall v w, e (vadd v w) = e v + e w.

Lemma e_zero : e vzero = k0.
Proof.
  apply self_double. rewrite <- e_add. apply e_ext. intros k _. unfold vadd, vzero. ring.
Qed.

Variable blk : nat -> nat.

Lemma below_sum m v : e (below blk m v) = ksum m (fun i => e (iota blk i v)).
Proof.
  induction m as [|m IH]; cbn [ksum].
  - rewrite <- e_zero. apply e_ext. intros k _. reflexivity.
  - rewrite <- IH, <- e_add. apply e_ext. intros k _. unfold below, iota, vadd.
    destruct (Nat.ltb_spec (blk k) (S m)) as [H|H]; destruct (Nat.ltb_spec (blk k) m) as [H1|H1];
      destruct (Nat.eqb_spec (blk k) m) as [H2|H2]; try lia; ring.
Qed.

Theorem C22_partition_linear n v :
  (forall k, k < N -> blk k < n) -> e v = ksum n (fun i => e (iota blk i v)).
Proof.
  intros Hb. rewrite <- below_sum. apply e_ext. intros k Hk. unfold below.
  destruct (Nat.ltb_spec (blk k) n) as [H|H]; [reflexivity|]. specialize (Hb k Hk). lia.
Qed.

(* a block depends only on its own sub-function *)
Theorem C22_block_independent_linear i v v' :
  (forall k, k < N -> blk k = i -> v k = v' k) -> e (iota blk i v) = e (iota blk i v').
Proof.
  intros H. apply e_ext. intros k Hk. unfold iota.
  destruct (Nat.eqb_spec (blk k) i) as [E|E]; [auto|reflexivity].
Qed.

(* blocks of an index that owns no component vanish (None entries of the result) *)
Theorem C22_empty_block i v : (forall k, k < N -> blk k <> i) -> e (iota blk i v) = k0.
Proof.
  intros H. rewrite <- e_zero. apply e_ext. intros k Hk. unfold iota, vzero.
  destruct (Nat.eqb_spec (blk k) i) as [E|E]; [destruct (H k Hk E)|reflexivity].
Qed.
End Linear.

Section Bilinear.
Variables N1 N2 : nat.
Variable e : vec -> vec -> A.
Hypothesis e_ext1 : forall u v w, (forall k, k < N1 -> v k = w k) -> e v u = e w u.
Hypothesis e_ext2 : forall v u w, (forall k, k < N2 -> u k = w k) -> e v u = e v w.
Hypothesis e_add1 : forall u v w, e (vadd v w) u = e v u + e w u.
Hypothesis e_add2 : forall v u w, e v (vadd u w) = e v u + e v w.
Variables blk1 blk2 : nat -> nat.

Theorem C22_partition_bilinear n1 n2 v u :
  (forall k, k < N1 -> blk1 k < n1) -> (forall k, k < N2 -> blk2 k < n2) ->
  e v u = ksum n1 (fun i => ksum n2 (fun j => e (iota blk1 i v) (iota blk2 j u))).
Proof.
  intros H1 H2.
  rewrite (C22_partition_linear N1 (fun v => e v u) (e_ext1 u) (e_add1 u) blk1 n1 v H1).
  apply ksum_ext. intros i _.
  apply (C22_partition_linear N2 (fun u => e (iota blk1 i v) u)
           (e_ext2 (iota blk1 i v)) (e_add2 (iota blk1 i v)) blk2 n2 u H2).
Qed.

Theorem C22_block_independent i j v v' u u' :
  (forall k, k < N1 -> blk1 k = i -> v k = v' k) ->
  (forall k, k < N2 -> blk2 k = j -> u k = u' k) ->
  e (iota blk1 i v) (iota blk2 j u) = e (iota blk1 i v') (iota blk2 j u').
Proof.
  intros Hv Hu.
  rewrite (C22_block_independent_linear N1 (fun v => e v (iota blk2 j u)) (e_ext1 _) blk1 i v v' Hv).
  apply (C22_block_independent_linear N2 (fun u => e (iota blk1 i v') u) (e_ext2 _) blk2 j u u' Hu).
Qed.

(* --- model of the all-blocks loops of extract_blocks on MixedElement spaces (pinned code):
       for pi in range(n0): for pj in range(n0): split(form, pi, pj), n0 = #sub-elements of
       arguments[0], whatever the arity and the trial space are. *)
Definition grid_sum (n0 : nat) (v u : vec) : A :=
  ksum n0 (fun i => ksum n0 (fun j => e (iota blk1 i v) (iota blk2 j u))).

Theorem C22_grid_partial n0 v u :
  (forall k, k < N1 -> blk1 k < n0) -> (forall k, k < N2 -> blk2 k < n0) ->
  grid_sum n0 v u = e v u.
Proof. intros H1 H2. symmetry. apply C22_partition_bilinear; assumption. Qed.
End Bilinear.

(* linear forms: the loop over pj does not change the block, so every block is returned n0 times *)
Section GridLinear.
Variable N : nat.
Variable e : vec -> A.
Hypothesis e_ext : forall v w, (forall k, k < N -> v k = w k) -> e v = e w.
Hypothesis e_add : forall v w, e (vadd v w) = e v + e w.
Variable blk : nat -> nat.
Definition grid_sum_linear (n0 : nat) (v : vec) : A :=
  ksum n0 (fun i => ksum n0 (fun _ => e (iota blk i v))).

Lemma ksum_const n (x : A) : ksum n (fun _ => x) = of_nat n * x.
Proof.
  induction n as [|n IH]; [cbn; ring|]. cbn [ksum]. rewrite IH.
  unfold of_nat. rewrite Nat2Z.inj_succ, <- Z.add_1_r.
  destruct (Z.of_nat n) as [|p|p] eqn:E; try lia; cbn [of_Z Z.add of_pos].
  - ring.
  - rewrite of_pos_add. cbn [of_pos]. ring.
Qed.

Theorem C22_grid_linear_scaled n0 v :
  (forall k, k < N -> blk k < n0) -> grid_sum_linear n0 v = of_nat n0 * e v.
Proof.
  intros Hb. unfold grid_sum_linear.
  rewrite (ksum_ext A n0 _ (fun i => of_nat n0 * e (iota blk i v))) by (intros; apply ksum_const).
  rewrite ksum_scal. f_equal. symmetry. apply (C22_partition_linear N e e_ext e_add blk n0 v Hb).
Qed.
End GridLinear.

(* --- the as_vector that FormSplitter.argument builds denotes iota i (den level) --------------- *)
Variable env : side -> nat -> nat -> list nat -> A.
Variable D DX : nat -> A -> A.
Variable ki : A.
Notation DEN := (@den A env D DX ki).

(* entries of the vector for one sub-element with components [cs] (its multi-indices in
   np.ndindex order), flattened offset [off]:
   replace_argument = True : Indexed (new argument a) c     (or a itself for a scalar sub-element)
   replace_argument = False: Indexed (old argument) [off + position] *)
Definition entry_new (a : expr) (c : list nat) : expr :=
  match c with [] => a | _ => Indexed a (map Fixed c) end.
Definition entries_new (a : expr) (cs : list (list nat)) : list expr := map (entry_new a) cs.
Definition entries_old (obj : expr) (off len : nat) : list expr :=
  map (fun k => Indexed obj [Fixed (off + k)]) (seq 0 len).
Definition zeros (len : nat) : list expr := repeat (Zero [] []) len.

Lemma zeros_length n : length (zeros n) = n.
Proof. apply repeat_length. Qed.
Lemma zeros_nth s rho n k :
  match nth_error (zeros n) k with Some x => DEN s rho x [] | None => k0 end = k0.
Proof.
  destruct (nth_error (zeros n) k) eqn:E; [|reflexivity].
  apply nth_error_In, repeat_spec in E. subst. reflexivity.
Qed.

Lemma den_listtensor_nth s rho es k :
  DEN s rho (ListTensor es) [k] = match nth_error es k with Some x => DEN s rho x [] | None => k0 end.
Proof.
  cbn [den]. revert k. induction es as [|x es IH]; intros k; destruct k; cbn; auto.
Qed.

Lemma map_idxval_fixed rho c : map (idxval rho) (map Fixed c) = c.
Proof. induction c; cbn; congruence. Qed.

Lemma den_entry_new s rho a c : DEN s rho (entry_new a c) [] = DEN s rho a c.
Proof.
  destruct c as [|x c]; [reflexivity|]. unfold entry_new. cbn [den].
  rewrite map_idxval_fixed. reflexivity.
Qed.

(* the vector  pre ++ block ++ post  with zeros outside the block *)
Theorem C22_embedding_den_new s rho a cs pre post k :
  DEN s rho (ListTensor (zeros pre ++ entries_new a cs ++ zeros post)) [k]
  = if andb (Nat.leb pre k) (Nat.ltb k (pre + length cs))
    then DEN s rho a (nth (k - pre) cs []) else k0.
Proof.
  rewrite den_listtensor_nth.
  destruct (Nat.leb_spec pre k) as [H1|H1]; cbn [andb].
  - rewrite nth_error_app2 by (rewrite zeros_length; lia).
    rewrite zeros_length.
    destruct (Nat.ltb_spec k (pre + length cs)) as [H2|H2].
    + rewrite nth_error_app1 by (unfold entries_new; rewrite map_length; lia).
      unfold entries_new. rewrite nth_error_map.
      rewrite (nth_error_nth' cs [] (n := k - pre)) by lia. cbn [option_map].
      apply den_entry_new.
    + rewrite nth_error_app2 by (unfold entries_new; rewrite map_length; lia).
      apply zeros_nth.
  - rewrite nth_error_app1 by (rewrite zeros_length; lia).
    apply zeros_nth.
Qed.

Theorem C22_embedding_den_old s rho obj len pre post k :
  DEN s rho (ListTensor (zeros pre ++ entries_old obj pre len ++ zeros post)) [k]
  = if andb (Nat.leb pre k) (Nat.ltb k (pre + len)) then DEN s rho obj [k] else k0.
Proof.
  rewrite den_listtensor_nth.
  destruct (Nat.leb_spec pre k) as [H1|H1]; cbn [andb].
  - rewrite nth_error_app2 by (rewrite zeros_length; lia).
    rewrite zeros_length.
    destruct (Nat.ltb_spec k (pre + len)) as [H2|H2].
    + rewrite nth_error_app1 by (unfold entries_old; rewrite map_length, seq_length; lia).
      unfold entries_old. rewrite nth_error_map.
      rewrite (nth_error_nth' (seq 0 len) 0 (n := k - pre)) by (rewrite seq_length; lia).
      rewrite seq_nth by lia. cbn [option_map den map idxval]. do 2 f_equal. lia.
    + rewrite nth_error_app2 by (unfold entries_old; rewrite map_length, seq_length; lia).
      apply zeros_nth.
  - rewrite nth_error_app1 by (rewrite zeros_length; lia).
    apply zeros_nth.
Qed.

End Blocks.

(* --- refutations: the all-blocks grid of the pinned code on concrete (tiny) inputs ----------- *)
Section Refuted.
Variable A : ualg.
Add Field C22g : (kfield A).
Open Scope K_scope.

(* two scalar sub-functions; the linear form e v = v_0; v = (1, 1) *)
Theorem C22_grid_linear_refuted :
  exists (e : vec A -> A) (blk : nat -> nat) (v : vec A),
    (forall v w, e (vadd A v w) = e v + e w) /\ (forall k, k < 2 -> blk k < 2) /\
    grid_sum_linear A e blk 2 v <> e v.
Proof.
  exists (fun v => v 0), (fun k => k), (fun _ => k1). split; [reflexivity|]. split; [intros; lia|].
  unfold grid_sum_linear, iota. cbn. intros E.
  apply (F_1_neq_0 (kfield A)).
  transitivity ((k0 + (k0 + k1 + k1) + (k0 + k0 + k0)) - k1 : A); [ring | rewrite E; ring].
Qed.

(* test space with 2, trial space with 3 scalar sub-functions; e v u = v_0 * u_2; the 2 x 2 grid
   misses block (0, 2) *)
Theorem C22_grid_trial_refuted :
  exists (e : vec A -> vec A -> A) (blk1 blk2 : nat -> nat) (v u : vec A),
    (forall u v w, e (vadd A v w) u = e v u + e w u) /\ (forall v u w, e v (vadd A u w) = e v u + e v w) /\
    (forall k, k < 2 -> blk1 k < 2) /\ (forall k, k < 3 -> blk2 k < 3) /\
    grid_sum A e blk1 blk2 2 v u <> e v u.
Proof.
  exists (fun v u => v 0 * u 2), (fun k => k), (fun k => k), (fun _ => k1), (fun _ => k1).
  repeat split; try (intros; unfold vadd; ring); try (intros; lia).
  unfold grid_sum, iota. cbn. intros E.
  apply (F_1_neq_0 (kfield A)).
  transitivity (k1 * k1 : A); [ring | rewrite <- E; ring].
Qed.
End Refuted.

Print Assumptions C22_partition_linear.
Print Assumptions C22_partition_bilinear.
Print Assumptions C22_block_independent.
Print Assumptions C22_empty_block.
Print Assumptions C22_grid_partial.
Print Assumptions C22_grid_linear_scaled.
Print Assumptions C22_embedding_den_new.
Print Assumptions C22_embedding_den_old.
Print Assumptions C22_grid_linear_refuted.
Print Assumptions C22_grid_trial_refuted.
